"""C16 - the cell grid partitions the box; neighbour/offset relations form a torus (contract sweep, index oracle)."""
import itertools
import math

from vf import core, gen

LEVEL = "exploration"


def build(dim, lengths, cps, layers, periodic):
    from vf.jf import init_setting
    from jellyfysh.activator.internal_state.cell_occupancy.cells.cuboid_cells import CuboidCells
    from jellyfysh.activator.internal_state.cell_occupancy.cells.cuboid_periodic_cells import CuboidPeriodicCells
    init_setting(dim, lengths)
    cls = CuboidPeriodicCells if periodic else CuboidCells
    return cls(cells_per_side=list(cps), neighbor_layers=layers)


def check_grid(acc, rng, dim, lengths, cps, layers, periodic, max_pairs=3000):
    g = {"dim": dim, "L": [x.hex() for x in lengths], "Lf": list(lengths), "cps": list(cps), "layers": layers,
         "periodic": periodic}
    # the documented short form: a list shorter than the dimension is completed with its FIRST entry; whenever the tail of
    # cps equals that, the constructor is given the short list and everything below is judged for the full one
    given = list(cps)
    k = next((j for j in range(1, dim) if all(c == cps[0] for c in cps[j:])), None)
    if k is not None and rng.random() < 0.5:
        given = list(cps[:k])
        g["given"] = given
        acc.count("grids_built_from_a_short_cells_per_side_list")
    try:
        cells = build(dim, lengths, given, layers, periodic)
    except Exception as e:  # construction of a legal grid must not fail
        acc.violation("C16:construction-raises", f"grid {g}: {type(e).__name__}: {e}", g)
        return
    acc.count("grids")
    acc.count("grids_periodic" if periodic else "grids_open")
    allc = list(cells.yield_cells())
    by_id = {}
    for c in allc:
        by_id.setdefault(tuple(c.identifier), []).append(c)
    want_ids = set(itertools.product(*[range(n) for n in cps]))
    if set(by_id) != want_ids or len(allc) != len(want_ids):
        acc.violation("C16:cell-identifiers", f"grid {g}: {len(allc)} cells, identifiers are not the index box", g)
        return
    by_id = {k: v[0] for k, v in by_id.items()}
    # -- extents per direction -------------------------------------------------------------------------------------
    ext = []
    for d in range(dim):
        L, n = lengths[d], cps[d]
        e = {}
        for c in allc:
            i = c.identifier[d]
            v = (c.cell_min[d], c.cell_max[d])
            if e.setdefault(i, v) != v:
                acc.violation("C16:extent-depends-on-other-directions", f"grid {g} direction {d} index {i}", g)
        ext.append(e)
        if e[0][0] != 0.0:
            acc.violation("C16:grid-does-not-start-at-zero", f"grid {g} direction {d}: cell_min[0]={e[0][0]!r}", g)
        for i in range(n):
            lo, hi = e[i]
            acc.count("extents_checked")
            if not lo <= hi:
                acc.violation("C16:empty-extent", f"grid {g} direction {d} cell {i}: [{lo!r},{hi!r}]", g)
            if abs(lo - i * (L / n)) > 8 * math.ulp(L) or abs(hi - (i + 1) * (L / n)) > 8 * math.ulp(L):
                acc.violation("C16:extent-not-on-regular-grid", f"grid {g} direction {d} cell {i}: [{lo!r},{hi!r}]", g)
            nxt = e[i + 1][0] if i + 1 < n else L
            if math.nextafter(hi, math.inf) != nxt:
                if i + 1 == n:
                    acc.violation("C16:top-of-box-index-rounds-up",
                                  f"L={L!r}, {n} cells: last cell ends at {hi!r}, {gen.f2i(L) - gen.f2i(hi) - 1} floats "
                                  f"below L belong to no cell", dict(g, d=d))
                else:
                    acc.violation("C16:gap-or-overlap-between-cells",
                                  f"grid {g} direction {d}: cell {i} ends at {hi!r}, cell {i + 1} starts at {nxt!r}", g)
    # -- position_to_cell ------------------------------------------------------------------------------------------
    for d in range(dim):
        L, n = lengths[d], cps[d]
        xs = [0.0, 5e-324]
        for i in range(1, n + 1):
            b = i * (L / n)
            xs += gen.nbrs(b, 8) + gen.nbrs(ext[d][i - 1][1], 2)
        xs += [gen.step(L, -k) for k in range(1, 9)]
        xs += [rng.uniform(0, L) for _ in range(2 * n + 10)]
        for x in xs:
            if not 0.0 <= x < L:
                continue
            pos = [rng.uniform(0, lengths[j]) * rng.choice([0, 1, 1, 1]) for j in range(dim)]
            pos[d] = x
            acc.case(("p2c", tuple(g["L"]), tuple(cps), d, x), nontrivial=True)
            acc.count("positions_mapped")
            top = x >= gen.step(L, -8)
            if top:
                acc.count("positions_top_of_box")
            w = dict(g, pos=[p.hex() for p in pos], d=d)
            try:
                c = cells.position_to_cell(pos)
            except Exception as ex:
                key = "C16:top-of-box-index-rounds-up" if int(x / (L / n)) >= n else "C16:position-to-cell-raises"
                acc.violation(key, f"position_to_cell({pos}) in grid L={lengths} cells={cps}: {type(ex).__name__}", w)
                continue
            bad = [j for j in range(dim) if not c.cell_min[j] <= pos[j] <= c.cell_max[j]]
            if bad:
                key = ("C16:top-of-box-index-rounds-up" if any(int(pos[j] / (lengths[j] / cps[j])) >= cps[j] for j in bad)
                       else "C16:position-outside-returned-cell")
                acc.violation(key, f"position_to_cell({pos}) -> cell {c.identifier} with extent "
                                   f"{c.cell_min}..{c.cell_max} (grid L={lengths} cells={cps})", w)
            # uniqueness: no other cell's extent contains x in direction d
            owners = [i for i in range(n) if ext[d][i][0] <= x <= ext[d][i][1]]
            if len(owners) != 1:
                if not (top and not owners):  # already reported as gap at the top of the box
                    acc.violation("C16:position-in-zero-or-several-extents", f"x={x!r} direction {d} owners {owners} "
                                                                             f"(grid L={lengths} cells={cps})", w)
    # -- neighbour / nearby / relative / translate vs index arithmetic -----------------------------------------------
    def wrap(idx):
        return tuple(idx[j] % cps[j] for j in range(dim))

    for c in allc:
        cid = tuple(c.identifier)
        for d in range(dim):
            for positive in (True, False):
                acc.count("neighbor_checked")
                nb = cells.neighbor_cell(c, d, positive)
                t = list(cid)
                t[d] += 1 if positive else -1
                if periodic:
                    want = by_id[wrap(t)]
                else:
                    want = by_id.get(tuple(t)) if 0 <= t[d] < cps[d] else None
                if nb is not want:
                    acc.violation("C16:neighbor-cell", f"neighbor_cell({cid},{d},{positive}) -> "
                                                       f"{getattr(nb, 'identifier', None)} (grid {g})", g)
        near = cells.nearby_cells(c)
        want = set()
        for off in itertools.product(*[range(-layers, layers + 1)] * dim):
            t = tuple(cid[j] + off[j] for j in range(dim))
            if periodic:
                want.add(by_id[wrap(t)])
            elif all(0 <= t[j] < cps[j] for j in range(dim)):
                want.add(by_id[t])
        acc.count("nearby_checked")
        if set(near) != want or c not in near:
            acc.violation("C16:nearby-cells", f"nearby_cells({cid}) = {sorted(x.identifier for x in near)} "
                                              f"(grid {g})", g)
        for o in near:
            if c not in cells.nearby_cells(o):
                acc.violation("C16:nearby-not-symmetric", f"{cid} near {o.identifier} but not vice versa (grid {g})", g)
    if periodic:
        if tuple(cells.zero_cell.identifier) != (0,) * dim:
            acc.violation("C16:zero-cell", f"zero_cell = {cells.zero_cell.identifier}", g)
        pairs = list(itertools.product(allc, allc)) if len(allc) ** 2 <= max_pairs else \
            [(rng.choice(allc), rng.choice(allc)) for _ in range(max_pairs)]
        for a, b in pairs:
            acc.count("pairs_checked")
            ia, ib = tuple(a.identifier), tuple(b.identifier)
            try:
                rel = cells.relative_cell(a, b)
                tr = cells.translate(a, b)
                back = cells.translate(b, rel)
            except Exception as ex:
                acc.violation("C16:relative-or-translate-raises", f"cells {ia},{ib} grid {g}: {type(ex).__name__}", g)
                continue
            if tuple(rel.identifier) != wrap(tuple(ia[j] - ib[j] for j in range(dim))):
                acc.violation("C16:relative-cell", f"relative_cell({ia},{ib}) = {rel.identifier} (grid {g})", g)
            if tuple(tr.identifier) != wrap(tuple(ia[j] + ib[j] for j in range(dim))):
                acc.violation("C16:translate", f"translate({ia},{ib}) = {tr.identifier} (grid {g})", g)
            if back is not a:
                acc.violation("C16:translate-does-not-invert-relative",
                              f"translate({ib}, relative_cell({ia},{ib})) = {back.identifier} (grid {g})", g)


def gen_grid(rng, max_cells):
    fixed = [1.0, 0.1, 12.836, 1e-3, 1e6, 3.7, 0.37, 2.0, 10.0, 3.0]
    while True:
        dim = rng.choice([1, 2, 2, 3, 3, 3])
        if rng.random() < 0.5:
            L = rng.choice(fixed) if rng.random() < 0.6 else gen.logu(rng, 1e-3, 1e6)
            lengths = [L] * dim
        else:
            lengths = [rng.choice(fixed) if rng.random() < 0.5 else gen.logu(rng, 1e-3, 1e6) for _ in range(dim)]
        hi = {1: 64, 2: 40, 3: 12}[dim]
        cps = [rng.randint(1, hi) if rng.random() < 0.7 else rng.choice([1, 2, 3, 5, 6, 7, 9]) for _ in range(dim)]
        if rng.random() < 0.3:
            cps = [cps[0]] * dim
        elif dim >= 3 and rng.random() < 0.2:
            cps = [cps[0], cps[1]] + [cps[0]] * (dim - 2)
        ncell = math.prod(cps)
        if ncell > max_cells:
            continue
        layers = rng.choice([0, 1, 1, 1, 2, 3])
        periodic = rng.random() < 0.7
        return dim, lengths, cps, layers, periodic


def shard(acc, prop="C16", seed=0, shard=0, grids=10, max_cells=600):
    import jellyfysh.setting as setting
    rng = core.rng_for(prop, seed, "shard", shard)
    directed = [(3, [1.0] * 3, [3] * 3, 1, True), (3, [12.836] * 3, [6] * 3, 1, True), (2, [1.0, 1.0], [7, 7], 1, True),
                (3, [1.0] * 3, [5, 3, 4], 2, True), (2, [3.7, 1.0], [9, 4], 1, False)]
    for k in range(grids):
        if shard == 0 and k < len(directed):
            dim, lengths, cps, layers, periodic = directed[k]
        else:
            dim, lengths, cps, layers, periodic = gen_grid(rng, max_cells)
        check_grid(acc, rng, dim, lengths, cps, layers, periodic)
        if shard == 0 and k < 4:
            acc.sample({"dimension": dim, "system_lengths": lengths, "cells_per_side": cps, "neighbor_layers": layers,
                        "periodic": periodic})
    setting.reset()


def main(ctx):
    nshards = ctx.pick(16, 64)
    grids, max_cells = ctx.pick((60, 800), (250, 2500))
    ctx.rule = ("cases = (grid, float position) for position_to_cell; grids: dimension 1-3, cubic and non-cubic boxes "
                "1e-3..1e6, 1..64 cells per side (unequal), 0..3 neighbour layers, periodic and open; positions: 8 floats "
                "on either side of every cell face, the 8 largest floats below L, 0, denormal, random; plus every "
                "extent pair (abutting: nextafter(cell_max[i]) == cell_min[i+1], last == L), every neighbour/nearby "
                "relation and all (or 3000 sampled) cell pairs for relative_cell/translate against index arithmetic "
                "modulo n; distinct = distinct (grid, direction, position) tuples")
    ctx.assumptions = ["cell boundaries are only required to lie within 8 ulp(L) of i*L/n: the code defines the cell "
                       "of x by float division, and the property only demands a gap-free, overlap-free partition"]
    jobs = [{"seed": ctx.seed, "shard": s, "grids": grids, "max_cells": max_cells} for s in range(nshards)]
    ctx.run_workers("vf.monitors.c16:shard", jobs)
    ctx.require("grids", 100)
    ctx.require("positions_top_of_box", 1000)
    ctx.require("pairs_checked", 10000)
    ctx.require("grids_open", 10)


def replay(acc, w):
    x = w["witness"]
    rng = core.rng_for("C16", 0, "replay")
    check_grid(acc, rng, x["dim"], [float.fromhex(v) for v in x["L"]], x["cps"], x["layers"], x["periodic"])
