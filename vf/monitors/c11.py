from vf.monitors import c07, suite

LEVEL = "exploration"
PROPS = ("C11",)
replay = c07.replay
RULE = c07.RULE.replace("at EVERY commit the full global state before and after is snapshot by value and judged",
                        "after EVERY activator call the cell-occupancy system is compared with the true positions (every "
                        "relevant unit exactly once, in the occupant or surplus list of its true cell; active unit separate; "
                        "occupant limit), and at every commit the active unit's cell is compared with the recorded one")


def required(ctx):
    ctx.require("occupancy_checks", 10000)
    ctx.require("units_matched", 20000)
    ctx.require("cell_crossings_checked", 300)
    ctx.require("cell_crossings_through_periodic_boundary", 30)
    ctx.require("surplus_units_matched", 100)


def main(ctx):
    ctx.rule = RULE
    ctx.assumptions = ["the occupancy is read through __getitem__/yield_surplus/yield_active_cells (+ a read of the private "
                       "surplus dictionary to learn the cell of a surplus unit, which the public API does not expose)",
                       "relevance (charge filter) and the occupant limit are taken from the .ini section, not from the object"]
    names = [n for n in suite.scenario.SHIPPED if "cell" in n]
    sh_ev, slow_ev, gen_ev = ctx.pick((3000, 2500, 3000), (60000, 30000, 30000))
    n_gen = ctx.pick(32, 240)
    jobs = suite.jobs_for(ctx, PROPS, n_gen, sh_ev, slow_ev, gen_ev, shipped=names,
                          families=["soft_cells", "hard_cells", "soft_cells_far", "hard_cells"], seeds=ctx.pick((0,), (0, 1, 2)))
    suite.run_suite(ctx, PROPS, jobs, timeout=ctx.pick(900, 3000))
    required(ctx)
