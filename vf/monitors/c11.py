from vf.monitors import c07, suite

LEVEL = "exploration"
PROPS = ("C11",)
replay = c07.replay
RULE = c07.RULE.replace("at EVERY commit the full global state before and after is snapshot by value and judged",
                        "after EVERY activator call the cell-occupancy system is compared with the true positions (every "
                        "relevant unit exactly once, in the occupant or surplus list of its true cell; active unit separate; "
                        "occupant limit), and at every commit the active unit's cell is compared with the recorded one")


def required(ctx):
    ctx.require("occupancy_checks", 10000)
    ctx.require("units_matched", 20000)
    ctx.require("cell_crossings_checked", 300)
    ctx.require("cell_crossings_through_periodic_boundary", 30)
    ctx.require("surplus_units_matched", 100)


def main(ctx):
    ctx.rule = RULE
    ctx.assumptions = ["the occupancy is read through __getitem__/yield_surplus/yield_active_cells (+ a read of the private "
                       "surplus dictionary to learn the cell of a surplus unit, which the public API does not expose)",
                       "relevance (charge filter) and the occupant limit are taken from the .ini section, not from the object"]
    names = [n for n in suite.scenario.SHIPPED if "cell" in n]
    sh_ev, slow_ev, gen_ev = ctx.pick((3000, 2500, 3000), (60000, 30000, 30000))
    n_gen = ctx.pick(32, 240)
    jobs = suite.jobs_for(ctx, PROPS, n_gen, sh_ev, slow_ev, gen_ev, shipped=names,
                          families=["soft_cells", "hard_cells", "soft_cells_far", "hard_cells"], seeds=ctx.pick((0,), (0, 1, 2)))
    # charge filter with negative charges: relevance is 'charge != 0', not 'charge > 0'
    for name in ("water/coulomb_power_bounded_lj_cell_bounded", "water/coulomb_cell_veto_lj_cell_veto"):
        if ctx.quick and name.endswith("cell_veto"):
            continue
        jobs.append({"spec": {"kind": "shipped", "name": name, "end": 1e6,
                              "overrides": {"OxygenIndicator": {"charge_values": "0, -1, 0"}}},
                     "props": list(PROPS), "seed": ctx.seed * 1000 + 77, "max_events": slow_ev, "label": name + "(negative filter charge)"})
    # two cell-occupancy systems in one run (molecules on the charge level, oxygens on the Lennard-Jones level) with enough
    # molecules for surplus units in both: the systems must not share any bookkeeping
    for k, (name, n) in enumerate([("water/coulomb_cell_veto_lj_cell_veto", 24), ("water/coulomb_power_bounded_lj_cell_bounded", 16)]):
        jobs.append({"spec": {"kind": "shipped", "name": name, "end": 1e6,
                              "overrides": {"RandomInputHandler": {"number_of_root_nodes": n}}, "min_event_handlers": 6 * n},
                     "props": list(PROPS), "seed": ctx.seed * 1000 + 80 + k, "max_events": ctx.pick(600, 6000),
                     "label": name + f"({n} molecules)"})
    # generated: two occupancy systems on the same cell level over the SAME cell grid (two pair interactions): a crossing
    # produces two cell-boundary events with identical times, each system must follow the active unit at both
    rng2 = suite.core.rng_for("C11", ctx.seed, "two-systems")
    for k in range(ctx.pick(6, 40)):
        spec = suite.gen_spec(rng2, "soft_cells")
        spec["params"]["cells"]["second_system"] = True
        spec["params"]["cells"]["max_occupants2"] = rng2.choice([1, 2, 0])
        spec["family"] = "soft_cells_two_systems"
        jobs.append({"spec": spec, "props": list(PROPS), "seed": ctx.seed * 1000 + 600 + k, "max_events": gen_ev,
                     "label": f"gen-soft_cells_two_systems-{k}"})
    # directed: start lattice, chain length and cell side commensurate -> legs end exactly on cell faces (time ties between
    # the end-of-chain / lifting event and the cell-boundary event)
    for s in range(ctx.pick(4, 16)):
        # all coordinates on a 0.025 lattice (cell sides 0.25 and 0.225 are multiples of it), pairwise distinct in x and in y
        # (an exactly head-on pair would make the 1/r inversion divide by zero, which is C02's subject)
        pos = [[0.025 * ((7 * i + s) % 40), 0.025 * ((9 * i + 5 * s + i * i) % 36)] for i in range(6)]
        while len({p[0] for p in pos}) < 6 or len({p[1] for p in pos}) < 6:
            pos = [[(p[0] + 0.025 * j) % 1.0, (p[1] + 0.025 * 2 * j) % 0.9] for j, p in enumerate(pos)]
        spec = {"kind": "spheres", "family": "commensurate_lattice",
                "params": {"dim": 2, "lengths": [1.0, 0.9], "n": 6, "potential": "hard_sphere", "radius": 1e-4,
                           "scheduler": "heap_scheduler" if s % 2 else "list_scheduler", "sampling_interval": 0.731,
                           "chain_time": 0.05, "speed": 0.5, "end": 1e6, "initial_direction": s % 2, "initial_active": s % 6,
                           "positions": pos, "cells": {"cells_per_side": [4, 4], "layers": 1, "max_occupants": 0, "far": False}}}
        jobs.append({"spec": spec, "props": list(PROPS), "seed": ctx.seed * 1000 + 500 + s, "max_events": 1500,
                     "label": f"gen-commensurate_lattice-{s}"})
    suite.run_suite(ctx, PROPS, jobs, timeout=ctx.pick(900, 3000))
    required(ctx)
