"""C13 - in-states are isolated copies; only commits change the global state.

(a) history + executable model on the real TreeStateHandler (extract / mutate / insert / extract-active / extract-all),
(b) invariant in real runs: the global state is bitwise unchanged between two commits, a commit reads back exactly."""
import math

from vf import core, probe
from vf.monitors import c07, suite

LEVEL = "exploration"
PROPS = ("C13",)
replay_run = c07.replay


def build(rng, levels, nroots, nchild, dim):
    from vf.jf import init_setting
    from jellyfysh.base.node import Node
    from jellyfysh.base.particle import Particle
    from jellyfysh.state_handler.tree_state_handler import TreeStateHandler
    from jellyfysh.state_handler.physical_state.tree_physical_state import TreePhysicalState
    from jellyfysh.state_handler.lifting_state.tree_lifting_state import TreeLiftingState
    init_setting(dim, [1.0] * dim, roots=nroots, per_root=nchild if levels == 2 else 1, levels=levels)
    roots = []
    model = {}
    for r in range(nroots):
        node = Node(Particle([rng.random() for _ in range(dim)], {"q": float(r)} if levels == 1 else None))
        model[(r,)] = [tuple(node.value.position), None, None]
        if levels == 2:
            for c in range(nchild):
                ch = Node(Particle([rng.random() for _ in range(dim)], {"q": float(c)}))
                node.add_child(ch)
                model[(r, c)] = [tuple(ch.value.position), None, None]
        roots.append(node)
    sh = TreeStateHandler(TreePhysicalState(), TreeLiftingState())
    sh.initialize(roots)
    return sh, model


def expected_branch(model, ident, levels, nchild):
    ids = [ident[:1]]
    if levels == 2:
        if len(ident) == 1:
            ids += [ident + (c,) for c in range(nchild)]
        else:
            ids.append(ident)
    return {i: tuple(model[i]) for i in ids}


def snap(cnodes):
    return {k: v[:3] for k, v in probe.snap_branches(cnodes).items()}


def all_units(cnode):
    yield cnode.value
    for c in cnode.children:
        yield from all_units(c)


def run_sequence(acc, rng, levels, nroots, nchild, dim, nops, tag):
    from jellyfysh.base.time import Time
    sh, model = build(rng, levels, nroots, nchild, dim)
    live = []  # [branch cnode, expected dict id->(pos, vel, ts)]
    ops_log = []
    wit = dict(tag, ops=ops_log)
    now = 0.0

    def fail(key, what):
        acc.violation(f"C13:{key}", f"{what} (tree {levels} level(s), {nroots} roots x {nchild}; after ops {ops_log[-6:]})", wit)
        return False

    def check_global():
        g = snap(sh.extract_global_state())
        m = {k: tuple(v) for k, v in model.items()}
        if g != m:
            bad = [k for k in m if g.get(k) != m[k]]
            return fail("global-state-differs-from-model", f"unit {bad[0]}: global state {g.get(bad[0])}, model {m[bad[0]]}")
        return True

    def check_live():
        for i, (br, exp) in enumerate(live):
            got = snap([br])
            if got != exp:
                bad = [k for k in exp if got.get(k) != exp[k]]
                return fail("extracted-branch-changed-behind-its-back",
                            f"extracted branch #{i}: unit {bad[0]} is {got.get(bad[0])}, expected {exp[bad[0]]}")
        return True

    def all_ids():
        return list(model)

    for opi in range(nops):
        c = rng.random()
        if c < 0.3:
            ident = rng.choice(all_ids())
            br = sh.extract_from_global_state(ident)
            ops_log.append(("extract", list(ident)))
            exp = expected_branch(model, ident, levels, nchild)
            got = snap([br])
            acc.count("extractions_checked")
            if len(ident) == 1 and levels == 2:
                acc.count("extractions_with_descendants")
            if len(ident) == 2:
                acc.count("extractions_with_ancestor")
            if got != exp:
                if set(got) != set(exp):
                    return fail("branch-has-wrong-units", f"extract({ident}) contains {sorted(got)}, expected {sorted(exp)}")
                bad = [k for k in exp if got[k] != exp[k]]
                return fail("branch-carries-stale-values", f"extract({ident}): unit {bad[0]} is {got[bad[0]]}, current {exp[bad[0]]}")
            # weights
            for cn in [br] + list(br.children):
                wantw = 1.0 if len(cn.value.identifier) == 1 else 1.0 / nchild
                if abs(cn.weight - wantw) > 1e-15:
                    return fail("branch-weight", f"extract({ident}): unit {cn.value.identifier} weight {cn.weight}, expected {wantw}")
            live.append([br, exp])
            if len(live) > 6:
                live.pop(0)
        elif c < 0.6 and live:
            # mutate an extracted branch in place (what event handlers do): position, velocity, time stamp
            k = rng.randrange(len(live))
            br, exp = live[k]
            units = list(all_units(br))
            u = rng.choice(units)
            ident = tuple(u.identifier)
            field = rng.choice(["pos_elem", "pos_new", "vel_elem", "vel_new", "vel_none", "ts_update", "ts_new"])
            pos, vel, ts = exp[ident]
            if field == "pos_elem":
                d = rng.randrange(dim)
                u.position[d] = rng.random()
                pos = tuple(u.position)
            elif field == "pos_new":
                u.position = [rng.random() for _ in range(dim)]
                pos = tuple(u.position)
            elif field in ("vel_elem", "vel_new", "ts_update", "ts_new"):
                now += rng.random()
                if u.velocity is None or field == "vel_new":
                    u.velocity = [rng.choice([0.0, 1.0, -0.5, rng.random()]) for _ in range(dim)]
                    if not any(u.velocity) and rng.random() < 0.7:
                        u.velocity[0] = 1.0     # (a velocity of exactly zero is still a velocity: kept in 30 % of these draws)
                    if not any(u.velocity):
                        acc.count("mutations_to_zero_velocity")
                else:
                    u.velocity[rng.randrange(dim)] = rng.choice([1.0, 0.25, rng.random() + 0.1])
                if u.time_stamp is None or field == "ts_new":
                    u.time_stamp = Time.from_float(now)
                else:
                    u.time_stamp.update(Time.from_float(now))
                vel, ts = tuple(u.velocity), (u.time_stamp.quotient, u.time_stamp.remainder)
            elif field == "vel_none":
                u.velocity, u.time_stamp = None, None
                vel, ts = None, None
            exp[ident] = (pos, vel, ts)
            ops_log.append(("mutate", k, list(ident), field))
            acc.count("mutations_of_extracted_branches")
            acc.counters.setdefault("mutations_by_kind", {})
            lvl = "root" if len(ident) == 1 else "leaf"
            which = "own" if ident == tuple(br.value.identifier) or not br.children else \
                ("descendant" if len(ident) > len(br.value.identifier) and len(br.children) > 1 else "ancestor_or_child")
            kk = f"{field}:{lvl}"
            acc.counters["mutations_by_kind"][kk] = acc.counters["mutations_by_kind"].get(kk, 0) + 1
        elif c < 0.78 and live:
            k = rng.randrange(len(live))
            br, exp = live.pop(k)
            sh.insert_into_global_state([br])
            for ident, v in exp.items():
                model[ident] = list(v)
            ops_log.append(("insert", k))
            acc.count("inserts")
            # other live branches that overlap keep their (now outdated) copies: that is the point of isolation
        elif c < 0.9:
            # make the lifting state consistent (as event handlers keep it) and compare the active extraction
            ops_log.append(("extract_active",))
            want = []
            for r in range(nroots):
                if levels == 1:
                    if model[(r,)][1] is not None:
                        want.append((r,))
                    continue
                moving = [(r, c2) for c2 in range(nchild) if model[(r, c2)][1] is not None]
                root_moving = model[(r,)][1] is not None
                if not root_moving:
                    continue  # the rule is only specified for consistent states: a moving member implies a moving root
                if len(moving) == nchild:
                    want.append((r,))
                else:
                    want += moving
            consistent = all((model[(r,)][1] is not None) == any(model[(r, c2)][1] is not None for c2 in range(nchild))
                             for r in range(nroots)) if levels == 2 else True
            if consistent:
                got = sh.extract_active_global_state()
                # what a returned branch stands for = the set of point masses it contains (a composite object's branch
                # contains all of them, a point mass's branch only itself)
                def leaves(b):
                    return frozenset([tuple(b.value.identifier)] if not b.children
                                     else [tuple(ch.value.identifier) for ch in b.children])
                reps = [leaves(b) for b in got]
                want = [frozenset([w]) if levels == 1 or len(w) == 2 else frozenset((w[0], c2) for c2 in range(nchild))
                        for w in want]
                acc.count("active_extractions_checked")
                if any(0 < len([1 for c2 in range(nchild) if model[(r, c2)][1] is not None]) < nchild and nchild >= 3
                       and len([1 for c2 in range(nchild) if model[(r, c2)][1] is not None]) >= 2 for r in range(nroots)) \
                        if levels == 2 else False:
                    acc.count("active_extractions_with_partially_moving_object")
                if sorted(map(sorted, reps)) != sorted(map(sorted, want)):
                    return fail("active-part-wrong", f"extract_active_global_state returns branches for "
                                                     f"{sorted(map(sorted, reps))}, the independently moving units are "
                                                     f"{sorted(map(sorted, want))}")
                gs = snap(got)
                for k2, v in gs.items():
                    if tuple(model[k2]) != v:
                        return fail("active-branch-carries-stale-values", f"unit {k2}: {v} vs current {tuple(model[k2])}")
                for b in got:
                    live.append([b, {k2: tuple(model[k2]) for k2 in snap([b])}])
                while len(live) > 6:
                    live.pop(0)
            else:
                acc.count("active_extractions_skipped_inconsistent_state")
        else:
            ops_log.append(("extract_all",))
        if not check_global() or not check_live():
            return False
    return True


def make_consistent_bias(rng):
    return rng.random() < 0.5


def shard(acc, prop="C13", seed=0, shard=0, n=50, nops=60):
    import jellyfysh.setting as setting
    rng0 = core.rng_for(prop, seed, "seq", shard)
    for i in range(n):
        levels = rng0.choice([1, 2, 2, 2])
        nroots = rng0.randint(1, 6)
        nchild = rng0.randint(1, 4) if levels == 2 else 1
        dim = rng0.choice([1, 2, 3])
        tag = {"kind": "sequence", "seed": seed, "shard": shard, "i": i, "levels": levels, "nroots": nroots,
               "nchild": nchild, "dim": dim, "nops": nops}
        rng = core.rng_for(prop, seed, "seq", shard, i)
        run_sequence(acc, rng, levels, nroots, nchild, dim, nops, tag)
        acc.case(("seq", shard, i), nontrivial=True)
        acc.count("sequences")
        if shard == 0 and i < 2:
            acc.sample({k: v for k, v in tag.items()})
    setting.reset()


def main(ctx):
    ctx.rule = ("(a) case = a sequence of 60 operations (extract any identifier, mutate any field of any unit of an extracted "
                "branch in place, insert a branch, extract the active part, extract all) on the real TreeStateHandler for "
                "random trees (1-2 levels, 1-6 roots, 1-4 children); after EVERY operation the global state and every "
                "extracted-but-not-inserted branch are compared by value with a dict model; (b) real runs (shipped + "
                "generated): the by-value snapshot of the global state after commit k must equal the one before commit k+1 and "
                "the committed values must read back; distinct = sequences + (scenario, seed)")
    ctx.assumptions = ["mutating a branch after it was inserted is outside the statement and is not generated",
                       "the independent-active rule is only judged on states in which a composite object moves iff a member moves"]
    nsh = ctx.pick(16, 64)
    n, nops = ctx.pick((150, 60), (1500, 80))
    jobs = [{"seed": ctx.seed, "shard": s, "n": n, "nops": nops} for s in range(nsh)]
    ctx.run_workers("vf.monitors.c13:shard", jobs)
    n_gen, sh_ev, slow_ev, gen_ev = ctx.pick((12, 2000, 1000, 2000), (120, 40000, 15000, 15000))
    jobs = suite.jobs_for(ctx, PROPS, n_gen, sh_ev, slow_ev, gen_ev)
    suite.run_suite(ctx, PROPS, jobs, timeout=ctx.pick(900, 3000))
    ctx.require("sequences", 1000)
    ctx.require("extractions_with_descendants", 1000)
    ctx.require("extractions_with_ancestor", 1000)
    ctx.require("mutations_of_extracted_branches", 10000)
    ctx.require("active_extractions_checked", 1000)
    ctx.require("active_extractions_with_partially_moving_object", 20)
    ctx.require("between_commit_comparisons", 10000)
    ctx.require("readback_checks", 10000)


def replay(acc, w):
    x = w["witness"]
    if x.get("kind") == "sequence":
        rng = core.rng_for("C13", x["seed"], "seq", x["shard"], x["i"])
        run_sequence(acc, rng, x["levels"], x["nroots"], x["nchild"], x["dim"], x["nops"], x)
    else:
        replay_run(acc, w)
