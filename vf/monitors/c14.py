"""C14 - time stamps keep full resolution and order. Contract sweep judged in exact rational arithmetic."""
import math
from fractions import Fraction as F

from vf import core, gen

LEVEL = "exploration"
INF = math.inf


def _pools(rng):
    qs = [0.0, 1.0, 2.0, 3.0, 7.0, 1e3, 1e6, 123456789.0]
    for k in (8, 16, 24, 31, 32, 33, 40, 48, 51, 52):
        qs += [2.0 ** k - 1, 2.0 ** k, 2.0 ** k + 1]
    qs = [q for q in qs if q <= 2.0 ** 52]
    rs = [0.0, 5e-324, 2.0 ** -1074 * 3, 2.0 ** -1022, 2.0 ** -53, 2.0 ** -52, 0.25, 0.5, 0.75, 1 - 2.0 ** -53,
          1 - 2.0 ** -52, 0.1, 0.3, 1 / 3]
    rs += gen.nbrs(0.5, 2)
    return qs, rs


def _rand_time(rng, qs, rs):
    q = rng.choice(qs) if rng.random() < 0.7 else float(rng.randrange(0, 2 ** 52))
    r = rng.choice(rs) if rng.random() < 0.5 else gen.rand_bits_unit(rng)
    if r >= 1.0:
        r = 1 - 2.0 ** -53
    return q, r


def _rand_dt(rng, r):
    c = rng.random()
    if c < 0.15:
        return rng.choice([0.0, 5e-324, 2.0 ** -1022, 2.0 ** -60, 2.0 ** -53, 1.0, 2.0, 1e6, 2.0 ** 40, 0.5, 1e-9])
    if c < 0.35:  # carry region: dt = 1 - r +- few ulp, or k - r
        k = rng.choice([1, 1, 1, 2, 3, 100, 2 ** 20])
        base = k - r
        return max(0.0, gen.step(base, rng.randint(-3, 3)))
    if c < 0.45:
        return float(rng.randrange(0, 2 ** rng.randrange(1, 41)))
    if c < 0.55:
        return gen.step(float(rng.randrange(1, 1000)), rng.randint(-2, 2))
    return gen.logu(rng, 1e-300, 2.0 ** 40) if rng.random() < 0.3 else gen.logu(rng, 1e-12, 1e4)


def _exact(q, r):
    return F(q) + F(r)


def check_add(acc, Time, q, r, dt):
    """Post-condition of Time(q, r) + dt for finite operands; returns the result time."""
    t = Time(q, r)
    res = t + dt
    q2, r2 = res.quotient, res.remainder
    w = {"op": "add", "q": q.hex(), "r": r.hex(), "dt": dt.hex(), "res": [repr(q2), repr(r2)]}
    if res is t:
        acc.violation("C14:add-returns-its-operand", f"Time({q},{r}) + {dt} returned the operand itself, not a new time: an "
                                                     f"in-place update of the result changes the operand", w)
    if not (isinstance(q2, float) and isinstance(r2, float)) or q2 != q2 or r2 != r2 or math.isinf(q2):
        acc.violation("C14:add-not-a-finite-time", f"Time({q},{r}) + {dt} -> {res!r}", w)
        return res
    if q2 != math.floor(q2) or not (0.0 <= r2 < 1.0):
        acc.violation("C14:add-not-normalised", f"Time({q},{r}) + {dt} -> {res!r}", w)
    exact = F(q) + F(r) + F(dt)
    got = F(q2) + F(r2)
    s = float(F(r) + F(dt))
    tol = F(math.ulp(s)) / 2
    if abs(got - exact) > tol:
        acc.violation("C14:add-error-exceeds-one-rounding-of-remainder",
                      f"Time({q},{r}) + {dt} -> {res!r}: error {float(got - exact):.3e} > ulp(r+dt)/2 = {float(tol):.3e}", w)
    if got < F(q) + F(r):
        acc.violation("C14:add-decreases-time", f"Time({q},{r}) + {dt} -> {res!r} is below the operand", w)
    if abs(got - exact) <= tol and q >= 2.0 ** 32 and dt < 1e-3 and dt > 0:
        acc.count("add_large_quotient_small_dt")
    if math.floor(r + dt) >= 1:
        acc.count("add_with_carry")
    return res


def check_cmp(acc, Time, a, b):
    ta, tb = Time(*a), Time(*b)
    ea = INF if math.isinf(a[0]) else _exact(*a)
    eb = INF if math.isinf(b[0]) else _exact(*b)
    want = {"lt": ea < eb, "le": ea <= eb, "gt": ea > eb, "ge": ea >= eb, "eq": ea == eb, "ne": ea != eb}
    got = {"lt": ta < tb, "le": ta <= tb, "gt": ta > tb, "ge": ta >= tb, "eq": ta == tb, "ne": ta != tb}
    if want != got:
        bad = [k for k in want if want[k] != bool(got[k])]
        acc.violation("C14:comparison-disagrees-with-exact-order",
                      f"Time{a} vs Time{b}: {bad} wrong (got {got})",
                      {"op": "cmp", "a": [x.hex() for x in a], "b": [x.hex() for x in b]})
    if ea == eb:
        acc.count("cmp_ties")
    elif a[0] == b[0]:
        acc.count("cmp_equal_quotient")
    elif a[1] == b[1]:
        acc.count("cmp_equal_remainder")


class _H(object):
    pass


def check_heap_order(acc, Time, a, b):
    """The C heap must order two times exactly like the exact rational order (it compares quotient, then remainder)."""
    from jellyfysh.scheduler.heap_scheduler import HeapScheduler
    ha, hb = _H(), _H()
    for first in (0, 1):
        s = HeapScheduler()
        for t, h in ((a, ha), (b, hb)) if first == 0 else ((b, hb), (a, ha)):
            s.push_event(Time(*t), h)
        got = s.get_succeeding_event()
        ea, eb = _exact(*a), _exact(*b)
        acc.count("heap_order_checks")
        if ea != eb and (got is ha) != (ea < eb):
            acc.violation("C14:heap-order-disagrees-with-exact-order",
                          f"heap scheduler returns the event at Time{b if got is hb else a} before Time{a if got is hb else b}",
                          {"op": "heap", "a": [x.hex() for x in a], "b": [x.hex() for x in b]})
            return


def check_sub(acc, Time, a, b):
    d = Time(*a) - Time(*b)
    exact = _exact(*a) - _exact(*b)
    tol = 4 * F(math.ulp(max(1.0, abs(float(exact)))))
    if not isinstance(d, float) or d != d or abs(F(d) - exact) > tol:
        acc.violation("C14:subtraction-error", f"Time{a} - Time{b} = {d!r}, exact {float(exact)!r}",
                      {"op": "sub", "a": [x.hex() for x in a], "b": [x.hex() for x in b]})


def check_from_float(acc, Time, x):
    t = Time.from_float(x)
    q, r = t.quotient, t.remainder
    if math.isinf(x):
        ok = math.isinf(q) and q > 0
    else:
        ok = q == math.floor(q) and 0.0 <= r < 1.0 and F(q) + F(r) == F(x)
    if not ok:
        acc.violation("C14:from-float-inexact", f"from_float({x!r}) -> {t!r}", {"op": "from_float", "x": x.hex()})


def check_inf(acc, Time, time_inf, q, r, dt):
    t = Time(q, r)
    a = t + INF
    w = {"op": "inf", "q": q.hex(), "r": r.hex(), "dt": dt.hex()}
    if not (a == time_inf and math.isinf(a.quotient)):
        acc.violation("C14:finite-plus-inf-not-inf", f"Time({q},{r}) + inf -> {a!r}", w)
    b = time_inf + dt
    if not (b.quotient == INF):
        key = "C14:inf-plus-finite-is-nan" if b.quotient != b.quotient else "C14:inf-not-absorbing"
        acc.violation(key, f"time.inf + {dt!r} -> {b!r}", w)
    else:
        if not (b == time_inf) or not (b > t) or (b < t) or not (b >= time_inf):
            acc.violation("C14:inf-not-absorbing", f"time.inf + {dt!r} -> {b!r} does not compare as infinity", w)
    # sums are new objects: what time slicing does to a result (in-place update) must never reach the operand, least of all
    # the module's constant infinity
    if a is t or b is time_inf:
        acc.violation("C14:add-returns-its-operand", f"{'Time + inf' if a is t else 'time.inf + ' + repr(dt)} returned the "
                                                     f"operand itself, not a new time", w)
    else:
        b.update(Time(q, r))
        a.update(Time(q, r))
    if not math.isinf(time_inf.quotient):
        acc.violation("C14:infinity-constant-modified", f"after updating the result of time.inf + {dt!r} in place, time.inf is "
                                                        f"{time_inf!r}", w)
        time_inf.update(Time(INF, INF))
    if not (time_inf > t and t < time_inf and not (time_inf < t) and time_inf == Time(INF, INF) and time_inf >= t
            and t <= time_inf and t != time_inf):
        acc.violation("C14:inf-not-greater-than-finite", f"time.inf vs Time({q},{r})", w)


def shard(acc, prop="C14", seed=0, shard=0, n=1000):
    from jellyfysh.base.time import Time, inf as time_inf
    rng = core.rng_for(prop, seed, "shard", shard)
    qs, rs = _pools(rng)
    pool = []
    for i in range(n):
        q, r = _rand_time(rng, qs, rs)
        dt = _rand_dt(rng, r)
        acc.case(("add", q, r, dt), nontrivial=True)
        acc.count("add_checked")
        res = check_add(acc, Time, q, r, dt)
        # monotonicity in dt and never below t
        dt2 = gen.step(dt, rng.choice([1, 1, 2, 5])) if rng.random() < 0.5 else dt + _rand_dt(rng, r)
        if math.isfinite(dt2):
            res2 = Time(q, r) + dt2
            acc.count("monotone_pairs")
            if isinstance(res2.quotient, float) and res2.quotient == res2.quotient and res2 < res:
                acc.violation("C14:add-not-monotone", f"Time({q},{r}): +{dt!r} -> {res!r} but +{dt2!r} -> {res2!r}",
                              {"op": "mono", "q": q.hex(), "r": r.hex(), "dt": dt.hex(), "dt2": dt2.hex()})
        if i % 7 == 0:
            acc.count("inf_checked")
            check_inf(acc, Time, time_inf, q, r, dt)
        if i % 5 == 0:
            x = q + r if rng.random() < 0.5 else gen.logu(rng, 1e-300, 2.0 ** 52)
            acc.count("from_float_checked")
            check_from_float(acc, Time, x)
        if len(pool) < 400:
            pool.append((q, r))
            if rng.random() < 0.3:  # near-ties
                pool.append((q, gen.step(r, 1) if r < 1 - 2.0 ** -52 else r))
                pool.append((q + 1, r))
        if i < 3 and shard == 0:
            acc.sample({"op": "add", "t": [q, r], "dt": dt, "result": [res.quotient, res.remainder]})
    # pairs
    npairs = n
    pool.append((INF, INF))
    for _ in range(npairs):
        a, b = rng.choice(pool), rng.choice(pool)
        if rng.random() < 0.1:
            b = a
        acc.case(("cmp", a, b), nontrivial=True)
        acc.count("cmp_checked")
        check_cmp(acc, Time, a, b)
        if not math.isinf(a[0]) and not math.isinf(b[0]):
            acc.count("sub_checked")
            check_sub(acc, Time, a, b)
            if _ % 4 == 0:
                # near-coincident times at a large common quotient: below the resolution of quotient + remainder as one float
                if rng.random() < 0.5:
                    q = float(rng.choice([2 ** 20, 2 ** 30, 2 ** 40, 2 ** 52 - 5]))
                    r = gen.rand_bits_unit(rng) * 0.9
                    a, b = (q, r), (q, r + rng.choice([2.0 ** -40, 2.0 ** -50, 1e-12, 1e-9]))
                check_heap_order(acc, Time, a, b)


def main(ctx):
    nshards = ctx.pick(16, 64)
    n = ctx.pick(40000, 400000)
    ctx.rule = ("cases = (time (q,r), displacement dt) for addition (+monotone partner, +inf, +from_float) and pairs of "
                "times for the six comparisons and subtraction; generated from pools of special quotients (2^k+-1 up to "
                "2^52), special remainders (0, denormal, 0.5+-ulp, 1-2^-53) and displacements (denormal..2^40, carry "
                "region k-r+-3ulp, integers); every case is judged against fractions.Fraction; distinct = distinct "
                "argument tuples (all are non-trivial: each evaluates the exact oracle)")
    ctx.assumptions = ["fractions.Fraction and math.ulp/nextafter are correct",
                       "operands are restricted to quotients <= 2^52 and displacements <= 2^40 as the property states"]
    jobs = [{"prop": "C14", "seed": ctx.seed, "shard": s, "n": n} for s in range(nshards)]
    ctx.run_workers("vf.monitors.c14:shard", jobs)
    # the same contract on the arithmetic real runs perform (sampled), at simulation times up to the configured ends
    from vf.monitors import suite
    rj = suite.jobs_for(ctx, ("C14",), ctx.pick(6, 40), ctx.pick(3000, 40000), ctx.pick(1500, 15000), ctx.pick(2500, 20000),
                        shipped=["coulomb_atoms/power_bounded", "dipoles/dipole_motion", "water/coulomb_power_bounded_lj_inverted",
                                 "hard_disk_dipoles/hard_disk_dipoles_cells", "coulomb_atoms/cell_bounded"])
    suite.run_suite(ctx, ("C14",), rj, timeout=ctx.pick(900, 3000))
    ctx.require("in_run_additions_checked", 2000)
    ctx.require("add_checked", 1000)
    ctx.require("add_with_carry", 100)
    ctx.require("add_large_quotient_small_dt", 50)
    ctx.require("cmp_ties", 50)
    ctx.require("cmp_equal_quotient", 50)
    ctx.require("inf_checked", 100)
    ctx.require("heap_order_checks", 10000)


def replay(acc, w):
    from jellyfysh.base.time import Time, inf as time_inf
    x = w["witness"]
    fh = float.fromhex
    if x["op"] == "add":
        check_add(acc, Time, fh(x["q"]), fh(x["r"]), fh(x["dt"]))
    elif x["op"] == "inf":
        check_inf(acc, Time, time_inf, fh(x["q"]), fh(x["r"]), fh(x["dt"]))
    elif x["op"] == "cmp":
        check_cmp(acc, Time, tuple(map(fh, x["a"])), tuple(map(fh, x["b"])))
    elif x["op"] == "sub":
        check_sub(acc, Time, tuple(map(fh, x["a"])), tuple(map(fh, x["b"])))
    elif x["op"] == "heap":
        check_heap_order(acc, Time, tuple(map(fh, x["a"])), tuple(map(fh, x["b"])))
    elif x["op"] == "from_float":
        check_from_float(acc, Time, fh(x["x"]))
    elif x["op"] == "mono":
        q, r, dt, dt2 = (fh(x[k]) for k in ("q", "r", "dt", "dt2"))
        a, b = Time(q, r) + dt, Time(q, r) + dt2
        if b < a:
            acc.violation("C14:add-not-monotone", f"Time({q},{r}): +{dt!r} -> {a!r} but +{dt2!r} -> {b!r}", x)
