"""C19 - a dumped run resumes to exactly the run that was never interrupted.

Twin-process differential over recorded logs, EVERY dump point of every scenario enumerated (fault_enumeration):
  A   : the scenario with a dumping tagger, every dump file copied;   A' : the same scenario and seed without dumping;
  B_k : a fresh process running the repository's own resume.main() on dump k.
Logs (committing handler class, event time, out-state values as float.hex; states handed to output handlers) are compared
bit for bit."""
import json
import os
import shutil
import subprocess
from concurrent.futures import ThreadPoolExecutor

from vf import core
from vf.monitors import suite

LEVEL = "fault_enumeration"


def launch(mode, spec, timeout, aslr_off=True, repo=None):
    env = dict(os.environ, PYTHONHASHSEED="0")
    if repo:   # run the same code from another location (installed layout)
        env["VERIF_REPO"] = repo
        env["PYTHONPATH"] = repo + os.pathsep + core.HOME
    cmd = (["setarch", "-R"] if aslr_off else []) + [core.PY, "-m", "vf.twin", mode, json.dumps(spec)]
    try:
        p = subprocess.run(cmd, cwd=core.HOME, env=env, timeout=timeout, stdout=subprocess.PIPE, stderr=subprocess.PIPE)
    except subprocess.TimeoutExpired:
        return None, "watchdog"
    if not os.path.exists(spec["out"]):
        return None, f"rc={p.returncode}: {p.stderr.decode(errors='replace')[-600:]}"
    with open(spec["out"]) as f:
        return json.load(f), None


def norm(log):
    return [["dump"] if e[0] == "dump" else e for e in log]


def first_diff(a, b):
    for i, (x, y) in enumerate(zip(a, b)):
        if x != y:
            return i, x, y
    if len(a) != len(b):
        i = min(len(a), len(b))
        return i, a[i] if i < len(a) else "<end of log>", b[i] if i < len(b) else "<end of log>"
    return None


def brief(e):
    if isinstance(e, list) and e and e[0] == "commit":
        return f"commit {e[1]} at {e[2]} out-state {json.dumps(e[3])[:160]}"
    return json.dumps(e)[:200]


def classify(scn, where):
    """Mechanism key: many-target cell scenarios diverge because nearby targets are iterated in memory-address order."""
    return "C19:resumed-run-diverges"


def run_scenario(ctx, idx, scn, seed, max_dumps, timeout):
    base = os.path.join(core.WORK, f"c19-{os.getpid()}-{idx}")
    shutil.rmtree(base, ignore_errors=True)
    results = []
    try:
        wa, wn = os.path.join(base, "A"), os.path.join(base, "N")
        os.makedirs(wa)
        os.makedirs(wn)
        spec_a = {"scenario": scn, "workdir": wa, "seed": seed, "out": os.path.join(wa, "log.json"), "dump_dir": wa}
        scn_n = {k: v for k, v in scn.items() if k != "dump_interval"}
        if scn_n.get("kind") == "spheres" and scn_n["params"].get("dump_interval"):
            scn_n = dict(scn_n, params={k: v for k, v in scn_n["params"].items() if k != "dump_interval"})
        spec_n = {"scenario": scn_n, "workdir": wn, "seed": seed, "out": os.path.join(wn, "log.json")}
        with ThreadPoolExecutor(2) as ex:
            fa, fn = ex.submit(launch, "run", spec_a, timeout), ex.submit(launch, "run", spec_n, timeout)
            (A, ea), (N, en_) = fa.result(), fn.result()
        label = scn.get("name") or scn.get("family") or scn["kind"]
        if A is None or N is None:
            return [("inconclusive", f"{label}: original run failed to report: {ea or en_}")]
        if A["error"] or N["error"]:
            return [("inconclusive", f"{label}: original run raised: {(A['error'] or N['error'])[:300]}")]
        la = norm(A["log"])
        ln = norm(N["log"])
        wit = {"scenario": scn, "seed": seed}
        # (1) dumping changes nothing but adds dumping commits
        la_wo = [e for e in la if e[0] != "dump" and not (e[0] == "commit" and "Dumping" in (e[1] or ""))]
        d = first_diff(la_wo, ln)
        results.append(("count", "runs_with_and_without_dumping_compared", 1))
        if d:
            results.append(("violation", "C19:dumping-changes-the-run",
                            f"[{label}] the run with dumps differs from the same run without dumping at log entry {d[0]}: "
                            f"{brief(d[1])}  vs  {brief(d[2])}", dict(wit, index=d[0])))
        # (2) every dump point
        marks = [i for i, e in enumerate(la) if e[0] == "dump"]
        results.append(("count", "dump_points_available", len(marks)))
        picks = list(range(len(marks)))
        if len(picks) > max_dumps:
            step = len(picks) / max_dumps
            picks = sorted({int(i * step) for i in range(max_dumps)} | {0, len(marks) - 1})

        def resume(k):
            wb = os.path.join(base, f"B{k}")
            os.makedirs(wb, exist_ok=True)
            # event budget: a resumed run that has lost its end-of-run event would otherwise never stop
            ncommits = sum(1 for e in la[marks[k] + 1:] if e[0] == "commit")
            spec_b = {"dump": os.path.join(wa, f"dump_{k}.dat"), "out": os.path.join(wb, "log.json"),
                      "max_events": ncommits + 25, "argv": resume_argv(k)}
            return k, launch("resume", spec_b, timeout)

        def resume_argv(k):
            # every third dump is resumed with DEBUG logging, every fifth without output handlers
            if k % 3 == 1:
                return ["-vv", "--logfile", os.devnull]
            if k % 5 == 2:
                return ["--no-output"]
            return []
        with ThreadPoolExecutor(4) as ex:
            resumed = list(ex.map(resume, picks))
        # The dumped output handlers re-open the ORIGINAL run's '<file>.tmp' and rename it when their run ends, so concurrent
        # resumes of one run share that path: a resume that failed on exactly this file is repeated alone (harness race,
        # no user resumes several dumps of one run at the same time); a second failure is reported.
        for j, (k, (B, eb)) in enumerate(resumed):
            if B is not None and B["error"] and "FileNotFoundError" in B["error"] and ".tmp" in B["error"]:
                results.append(("count", "resumes_repeated_alone_after_shared_output_file_race", 1))
                resumed[j] = resume(k)
        if True:
            for k, (B, eb) in resumed:
                if B is None:
                    results.append(("inconclusive", f"{label}: resume of dump {k} did not report: {eb}"))
                    continue
                results.append(("case", (label, seed, k)))
                results.append(("count", "dump_points_resumed", 1))
                if B["error"]:
                    results.append(("violation", "C19:resume-raises",
                                    f"[{label}] resuming dump {k} raised: {B['error'][:400]}", dict(wit, dump=k)))
                    continue
                want = la[marks[k] + 1:]
                got = norm(B["log"])
                if resume_argv(k):
                    results.append(("count", "dump_points_resumed_with_" + resume_argv(k)[0].strip("-").replace("-", "_"), 1))
                if resume_argv(k) == ["--no-output"]:
                    # nothing is written: only the committed events can be compared
                    want = [e for e in want if e[0] == "commit"]
                    got = [e for e in got if e[0] == "commit"]
                d = first_diff(want, got)
                results.append(("count", "log_entries_compared", len(want)))
                if d:
                    results.append(("violation", classify(scn, d),
                                    f"[{label}] resumed from dump {k} (log entry {marks[k]}): entry {d[0]} after the dump is "
                                    f"{brief(d[2])} but the uninterrupted run has {brief(d[1])}", dict(wit, dump=k, index=d[0])))
                else:
                    results.append(("count", "dump_points_identical", 1))
                    if len(want) > 20:
                        results.append(("count", "dump_points_identical_with_long_tail", 1))
        results.append(("sample", {"scenario": label, "seed": seed, "dumps": len(marks), "resumed": len(picks),
                                   "log_entries": len(la)}))
    finally:
        shutil.rmtree(base, ignore_errors=True)
    return results


def installed_layout(ctx):
    """The same dump/resume cycle with the package located under a directory called site-packages (what 'pip install .'
    produces): dill then pickles the package's modules by reference instead of by value."""
    base = os.path.join(core.WORK, f"c19-{os.getpid()}-inst")
    shutil.rmtree(base, ignore_errors=True)
    try:
        sp = os.path.join(base, "site-packages")
        shutil.copytree(os.path.join(core.REPO, "jellyfysh"), os.path.join(sp, "jellyfysh"),
                        ignore=shutil.ignore_patterns("*.so", "*.o", "__pycache__", "output"))
        wa = os.path.join(base, "A")
        os.makedirs(wa)
        scn = {"kind": "shipped", "name": "coulomb_atoms/power_bounded", "end": 12.0, "dump_interval": 2.9}
        A, ea = launch("run", {"scenario": scn, "workdir": wa, "seed": ctx.seed, "out": os.path.join(wa, "log.json"),
                               "dump_dir": wa}, 600, repo=sp)
        if A is None or A["error"]:
            ctx.inconclusive.append(f"installed layout: original run failed: {ea or A['error'][:300]}")
            return
        la = norm(A["log"])
        marks = [i for i, e in enumerate(la) if e[0] == "dump"]
        for k in range(min(2, len(marks))):
            wb = os.path.join(base, f"B{k}")
            os.makedirs(wb)
            B, eb = launch("resume", {"dump": os.path.join(wa, f"dump_{k}.dat"), "out": os.path.join(wb, "log.json"),
                                      "max_events": len(la)}, 600, repo=sp)
            ctx.case(("installed", k), nontrivial=True)
            ctx.count("installed_layout_dump_points_resumed")
            wit = {"scenario": scn, "seed": ctx.seed, "layout": "site-packages", "dump": k}
            if B is None:
                ctx.inconclusive.append(f"installed layout: resume did not report: {eb}")
            elif B["error"]:
                key = "C19:installed-layout-setting-pickled-by-reference" if (
                    "NoneType" in B["error"] or "not initialized" in B["error"].lower()) else "C19:resume-raises"
                ctx.violation(key, f"[installed layout] resuming dump {k} raised: {B['error'][:300]}", wit)
            else:
                d = first_diff(la[marks[k] + 1:], norm(B["log"]))
                if d:
                    ctx.violation("C19:resumed-run-diverges", f"[installed layout] dump {k}: entry {d[0]}: {brief(d[2])} vs "
                                                              f"{brief(d[1])}", wit)
                else:
                    ctx.count("installed_layout_dump_points_identical")
    finally:
        shutil.rmtree(base, ignore_errors=True)


def scenarios(ctx):
    rng = core.rng_for("C19", ctx.seed, "scn")
    out = []
    # shipped: both schedulers, C-backed potentials, cell systems, composite objects with liftings
    sh = [("coulomb_atoms/power_bounded_dump", 30.0, 3.1, None),
          ("coulomb_atoms/power_bounded", 25.0, 2.3, {"SingleProcessMediator": {"scheduler": "list_scheduler"}}),
          ("dipoles/dipole_factors_inside_first", 12.0, 1.37, None),
          ("dipoles/dipole_motion", 12.0, 0.83, None),
          ("water/coulomb_power_bounded_lj_inverted", 8.0, 0.9, None),
          ("coulomb_atoms/cell_bounded", 6.0, 0.71, None)]
    if not ctx.quick:
        sh += [("dipoles/atom_factors", 15.0, 1.1, None), ("dipoles/dipole_factors_ratio", 15.0, 0.9, None),
               ("dipoles/dipole_factors_outside_first", 15.0, 1.3, {"SingleProcessMediator": {"scheduler": "list_scheduler"}}),
               ("water/single_molecule", 20.0, 1.7, None), ("hard_disk_dipoles/single_hard_disk_dipole", 40.0, 3.3, None),
               ("hard_disk_dipoles/hard_disk_dipoles_cells", 12.0, 2.9, None), ("dipoles/cell_bounded", 4.0, 0.6, None),
               ("coulomb_atoms/cell_veto", 1.5, 0.17, None), ("dipoles/cell_veto", 0.5, 0.07, None)]
    # commensurate fixed intervals: sampling, dumping and end-of-run events tie exactly (equal times in the scheduler)
    # (only sampling and dumping times tie: the order of two tied events that both change nothing is the scheduler's to
    # choose, but it must be the same choice after a resume; ties with the end of run or the end of a chain are avoided,
    # because there the order legitimately depends on which other events are present)
    sh.append(("coulomb_atoms/power_bounded", 3.1, 0.375, {"FixedIntervalSamplingEventHandler": {"sampling_interval": 0.25}}))
    sh.append(("dipoles/atom_factors", 4.1, 0.5, {"FixedIntervalSamplingEventHandler": {"sampling_interval": 0.125},
                                                   "SingleProcessMediator": {"scheduler": "list_scheduler"}}))
    sh.append(("coulomb_atoms/cell_veto", 3.1, 0.375, {"FixedIntervalSamplingEventHandler": {"sampling_interval": 0.25}}))
    sh.append(("coulomb_atoms/cell_bounded", 3.1, 0.625, {"FixedIntervalSamplingEventHandler": {"sampling_interval": 0.25}}))
    # sampling and dumping at identical times throughout the run
    for name, end in (("coulomb_atoms/cell_veto", 2.6), ("dipoles/dipole_motion", 5.1), ("coulomb_atoms/power_bounded", 6.1),
                      ("dipoles/dipole_factors_ratio", 5.1)):
        sh.append((name, end, 0.25, {"FixedIntervalSamplingEventHandler": {"sampling_interval": 0.25}}))
    # pools of deep-copied event handlers (number_event_handlers > 1) around the C merged-image potential: a resumed process
    # rebuilds every potential through its constructor, the original run works with copies; thousands of thinning decisions
    pooled = {"RandomInputHandler": {"number_of_root_nodes": 4}, "Coulomb": {"number_event_handlers": 5}}
    sh.append(("coulomb_atoms/power_bounded", ctx.pick(900.0, 4000.0), ctx.pick(271.3, 873.1), pooled))
    sh.append(("coulomb_atoms/power_bounded", ctx.pick(600.0, 3000.0), ctx.pick(171.7, 611.3),
               dict(pooled, SingleProcessMediator={"scheduler": "list_scheduler"},
                    RandomInputHandler={"number_of_root_nodes": 5})))
    for name, end, di, ov in sh:
        out.append({"kind": "shipped", "name": name, "end": end, "dump_interval": di, **({"overrides": ov} if ov else {})})
    # generated: several nearby targets (iteration order of containers matters), both schedulers
    fams = ["soft", "soft_cells", "hard_cells", "soft_cells_veto", "molecules", "soft_cells_far", "soft_cells", "hard"]
    for i in range(ctx.pick(16, 64)):
        fam = fams[i % len(fams)]
        spec = suite.gen_molecule_spec(rng) if fam == "molecules" else suite.gen_spec(rng, fam)
        p = spec["params"]
        p["end"] = rng.choice([4.1, 6.3, 9.7])
        spec["dump_interval"] = p["end"] / rng.choice([5.3, 9.1, 17.7])
        if i % 4 == 3:   # commensurate intervals: exact ties between sampling, dumping, end-of-chain and end-of-run times
            p["sampling_interval"], p["end"], spec["dump_interval"] = rng.choice([0.25, 0.125]), 3.1, rng.choice([0.375, 0.25, 0.5])
            # ... but no tie with the end of a chain (an event that changes the state): 25 chains of 0.11 are 11 samples of 0.25
            if "chain_time" in p:
                p["chain_time"] *= 0.9731
            for key in ("switch_leaf", "switch_root"):
                if key in p:
                    p[key] *= 1.0137
        out.append(spec)
    # crowded cells: many units per cell, no occupant limit, soft pair events (which draw random numbers), long enough for
    # units to enter and leave cells many times before a dump: the order in which a cell lists its occupants is program state
    for i in range(ctx.pick(2, 8)):
        spec = suite.gen_spec(rng, "soft_cells")
        p = spec["params"]
        dim = p["dim"]
        p["n"] = 12
        p["positions"] = suite.lattice_positions(rng, dim, p["lengths"], 12, 0.02 * min(p["lengths"]))
        p["initial_active"] = rng.randrange(12)
        p["cells"] = {"cells_per_side": [3] * dim, "layers": 1, "max_occupants": 0, "far": False, "veto": False, "points_per_side": 2}
        p["end"] = rng.choice([6.3, 9.7])
        spec["dump_interval"] = p["end"] / rng.choice([5.3, 9.1])
        spec["family"] = "soft_cells_crowded"
        out.append(spec)
    return out


def main(ctx):
    ctx.rule = ("case = (scenario, seed, dump point): every dump written by a run is resumed in a fresh process with the "
                "repository's resume.main() and its full commit/sample log compared bit for bit with the uninterrupted run's log "
                "after that dump; plus the run with dumps vs the same run without the dumping tagger; scenarios: shipped "
                "configurations (heap and list scheduler, C-backed potentials, cells, liftings, mode switching) and generated "
                "many-particle systems with cell systems; non-trivial = every resumed dump point")
    ctx.assumptions = ["all processes are started with address-space randomisation off (setarch -R) and PYTHONHASHSEED=0, so "
                       "that two runs of one scenario are reproducible at all",
                       "the event time in the log is the scheduler's own last-returned time (program state that is dumped)"]
    scns = scenarios(ctx)
    max_dumps = ctx.pick(8, 40)
    with ThreadPoolExecutor(ctx.pick(6, 8)) as ex:
        futs = [ex.submit(run_scenario, ctx, i, s, ctx.seed * 100 + i, max_dumps, ctx.pick(600, 2400))
                for i, s in enumerate(scns)]
        for f in futs:
            for r in f.result():
                if r[0] == "count":
                    ctx.count(r[1], r[2])
                elif r[0] == "case":
                    ctx.case(r[1], nontrivial=True)
                elif r[0] == "violation":
                    ctx.violation(r[1], r[2], r[3])
                elif r[0] == "inconclusive" and "original run raised" in r[1]:
                    # the uninterrupted run itself ends in an exception (with and without dumping alike): nothing to resume
                    # and nothing to compare; that scenario decides nothing, tolerated for a small part of the workload only
                    ctx.count("scenarios_whose_original_run_raised")
                    ctx.notes.append(r[1][:400])
                elif r[0] == "inconclusive":
                    ctx.inconclusive.append(r[1])
                elif r[0] == "sample":
                    ctx.sample(r[1], limit=8)
    installed_layout(ctx)
    if ctx.counters.get("scenarios_whose_original_run_raised", 0) > max(1, len(scns) // 10):
        ctx.inconclusive.append(f"{ctx.counters['scenarios_whose_original_run_raised']} of {len(scns)} original runs raised")
    ctx.require("installed_layout_dump_points_resumed", 1)
    ctx.require("dump_points_resumed", 40)
    ctx.require("dump_points_identical_with_long_tail", 20)
    ctx.require("runs_with_and_without_dumping_compared", 8)


def replay(acc, w):
    x = w["witness"]

    class C(object):
        quick = True
    res = run_scenario(C(), 999, x["scenario"], x["seed"], 40, 1200)
    for r in res:
        if r[0] == "violation":
            acc.violation(r[1], r[2], r[3])
