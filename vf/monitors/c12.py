from vf.monitors import c07, suite

LEVEL = "exploration"
PROPS = ("C12",)
replay = c07.replay
RULE = c07.RULE.replace("at EVERY commit the full global state before and after is snapshot by value and judged",
                        "at t=0 and after EVERY commit every composite object is compared with its point masses: stored "
                        "velocity = weighted sum (absent iff none moves), stored position advanced to the event time = weighted "
                        "barycentre of the nearest images of the members advanced with their own time stamps")


def required(ctx):
    ctx.require("composite_checks", 50000)
    ctx.require("moving_composite_checks", 10000)


def main(ctx):
    ctx.rule = RULE
    ctx.assumptions = ["velocity tolerance 1e-12 relative (the code itself zeroes components below 1e-13), barycentre "
                       "tolerance 1e-9*L (rounding drift is ~1e-16*L per event)", "molecule extent < L/2"]
    names = [n for n in suite.scenario.SHIPPED if n.split("/")[0] in ("dipoles", "water", "hard_disk_dipoles")]
    sh_ev, slow_ev = ctx.pick((4000, 2000), (100000, 30000))
    seeds = ctx.pick((0, 1), (0, 1, 2, 3, 4))
    jobs = suite.jobs_for(ctx, PROPS, ctx.pick(24, 200), sh_ev, slow_ev, ctx.pick(4000, 30000), shipped=names, seeds=seeds,
                          families=["molecules"])
    # short switch intervals: both mode switches taken hundreds of times
    for s in seeds:
        jobs.append({"spec": {"kind": "shipped", "name": "dipoles/dipole_motion", "end": 1e6,
                              "overrides": {"RootToLeafMode": {"chain_length": 0.013 + 0.01 * s},
                                            "LeafToRootMode": {"chain_length": 0.011 + 0.007 * s}}},
                     "props": list(PROPS), "seed": ctx.seed * 1000 + 50 + s, "max_events": sh_ev,
                     "label": "dipoles/dipole_motion(short switch)"})
    suite.run_suite(ctx, PROPS, jobs, timeout=ctx.pick(900, 3000))
    required(ctx)
