"""C15 - periodic wrapping and minimum-image separations are exact modular arithmetic (contract sweep, exact oracle)."""
import math
from fractions import Fraction as F

from vf import core, gen

LEVEL = "exploration"


def _mod_exact(x, L):
    """Exact representative of x modulo L in [0, L) as a Fraction."""
    fx, fL = F(x), F(L)
    return fx - fL * math.floor(fx / fL)


def _circ(a, b, L):
    """Circular distance between exact a and b modulo L."""
    d = _mod_exact_fr(a - b, L)
    return min(d, F(L) - d)


def _mod_exact_fr(fx, L):
    fL = F(L)
    return fx - fL * math.floor(fx / fL)


def positions(rng, L, n):
    """Hostile position entries for a box of length L."""
    out = []
    specials = [0.0, -0.0, 5e-324, -5e-324, L, -L, L / 2, -L / 2, 2 * L, 3 * L]
    for s in specials:
        out += gen.nbrs(s, 2)
    for e in (-17, -18, -20, -25, -30, -100, -300):
        out += [-(10.0 ** e) * L, -(10.0 ** e)]
    u = math.ulp(L)
    out += [-u / 4, -u / 2, -u, -u / 3, -u / 1.9, -u / 2.1]
    while len(out) < n:
        c = rng.random()
        if c < 0.3:
            out.append(rng.uniform(0, L))
        elif c < 0.45:
            out.append(rng.uniform(-L, 2 * L))
        elif c < 0.65:
            k = rng.choice([1, 2, 3, 10, 1000, 10 ** 6]) * rng.choice([-1, 1])
            out.append(gen.step(k * L, rng.randint(-3, 3)))
        elif c < 0.8:
            out.append(-gen.logu(rng, 1e-320, 1e-10) * L)
        elif c < 0.9:
            out.append(gen.step(rng.choice([0.0, L, L / 2, -L / 2]), rng.randint(-6, 6)))
        else:
            out.append(rng.uniform(-1e6, 1e6) * L)
    return out


def check_position_entry(acc, pb, x, i, L, tag):
    y = pb.correct_position_entry(x, i)
    w = {"op": "pos", "box": tag, "L": L.hex(), "x": x.hex(), "i": i, "y": repr(y)}
    if not isinstance(y, float) or y != y:
        acc.violation("C15:position-not-a-number", f"correct_position_entry({x!r}) L={L!r} -> {y!r}", w)
        return y
    if not (0.0 <= y < L):
        key = "C15:modulo-returns-L" if y == L and x < 0 else "C15:position-outside-half-open-box"
        acc.violation(key, f"correct_position_entry({x!r}) with L={L!r} -> {y!r}, not in [0, L)", w)
    tol = F(math.ulp(L))
    if _circ(F(y), F(x), L) > tol:
        acc.violation("C15:position-not-congruent", f"correct_position_entry({x!r}) L={L!r} -> {y!r} is not x mod L", w)
    y2 = pb.correct_position_entry(y, i)
    if y2 != y or math.copysign(1, y2) != math.copysign(1, y) and y != 0:
        acc.violation("C15:position-not-idempotent", f"f({x!r})={y!r} but f(f(x))={y2!r} (L={L!r})", w)
    if x < 0 and y != L and abs(x) < math.ulp(L):
        acc.count("tiny_negative_inputs")
    return y


def check_separation_entry(acc, pb, s, i, L, tag, scale):
    y = pb.correct_separation_entry(s, i)
    w = {"op": "sep", "box": tag, "L": L.hex(), "s": s.hex(), "i": i, "y": repr(y)}
    if not isinstance(y, float) or y != y:
        acc.violation("C15:separation-not-a-number", f"correct_separation_entry({s!r}) L={L!r} -> {y!r}", w)
        return y
    if abs(y) > L / 2:
        acc.violation("C15:separation-exceeds-half-box", f"correct_separation_entry({s!r}) L={L!r} -> {y!r}", w)
    tol = 4 * F(math.ulp(max(L, abs(scale))))
    if _circ(F(y), F(s), L) > tol:
        acc.violation("C15:separation-not-congruent", f"correct_separation_entry({s!r}) L={L!r} -> {y!r}", w)
    if abs(abs(s) - L / 2) <= 4 * math.ulp(L):
        acc.count("separations_at_half_box")
    return y


def run_box(acc, rng, dim, lengths, npos):
    """One box: initialise the real setting, sweep all PeriodicBoundaries methods."""
    import jellyfysh.setting as setting
    from jellyfysh.setting import hypercubic_setting, hypercuboid_setting
    from jellyfysh.setting.hypercubic_setting import HypercubicSetting, HypercubicPeriodicBoundaries
    from jellyfysh.setting.hypercuboid_setting import HypercuboidSetting, HypercuboidPeriodicBoundaries
    setting.reset()
    cubic = len(set(lengths)) == 1
    if cubic and rng.random() < 0.7:
        HypercubicSetting(beta=1.0, dimension=dim, system_length=lengths[0])
        tag = "cubic"
    else:
        HypercuboidSetting(beta=1.0, dimension=dim, system_lengths=list(lengths))
        tag = "cuboid"
    pb = setting.periodic_boundaries
    acc.count(f"boxes_{tag}")
    impls = [(pb, tag)]
    if tag == "cubic":
        impls.append((HypercuboidPeriodicBoundaries, "cuboid-equal"))
    for i in range(dim):
        L = lengths[i]
        xs = positions(rng, L, npos)
        for x in xs:
            acc.case(("pos", tag, L, x), nontrivial=True)
            ys = [check_position_entry(acc, p, x, i, L, t) for p, t in impls]
            acc.count("position_entries")
            if len(ys) == 2:
                acc.count("cubic_vs_cuboid")
                if repr(ys[0]) != repr(ys[1]):
                    acc.violation("C15:cubic-cuboid-disagree", f"correct_position_entry({x!r}) L={L!r}: {ys}",
                                  {"op": "pos", "box": tag, "L": L.hex(), "x": x.hex(), "i": i})
            # next_image is one box length further
            ni = pb.next_image(x, i)
            if ni != x + L:
                acc.violation("C15:next-image", f"next_image({x!r},{i}) = {ni!r} != x + L", {"op": "ni", "x": x.hex()})
        ss = positions(rng, L, npos // 2) + [gen.step(sg * L / 2 + k * L, d) for sg in (1, -1) for k in (0, 1, -1, 5)
                                              for d in range(-3, 4)]
        for s in ss:
            acc.case(("sep", tag, L, s), nontrivial=True)
            acc.count("separation_entries")
            ys = [check_separation_entry(acc, p, s, i, L, t, s) for p, t in impls]
            if len(ys) == 2 and repr(ys[0]) != repr(ys[1]):
                acc.violation("C15:cubic-cuboid-disagree", f"correct_separation_entry({s!r}) L={L!r}: {ys}",
                              {"op": "sep", "box": tag, "L": L.hex(), "s": s.hex(), "i": i})
    # vector versions
    for _ in range(npos):
        a = [rng.choice(positions(rng, lengths[i], 60)) if rng.random() < 0.3 else rng.uniform(0, lengths[i])
             for i in range(dim)]
        b = [rng.choice(positions(rng, lengths[i], 60)) if rng.random() < 0.3 else rng.uniform(0, lengths[i])
             for i in range(dim)]
        if rng.random() < 0.2:  # exactly half a box apart
            j = rng.randrange(dim)
            b[j] = gen.step(a[j] + rng.choice([-1, 1]) * lengths[j] / 2, rng.randint(-2, 2))
        acc.case(("vec", tag, tuple(a), tuple(b)), nontrivial=True)
        acc.count("separation_vectors")
        a0, b0 = list(a), list(b)
        sv = pb.separation_vector(a, b)
        if a != a0 or b != b0:
            acc.violation("C15:separation-vector-mutates-arguments", f"{a0}->{a}, {b0}->{b}", {"op": "vec"})
        for i in range(dim):
            L = lengths[i]
            w = {"op": "vec", "box": tag, "L": [x.hex() for x in lengths], "a": [x.hex() for x in a0],
                 "b": [x.hex() for x in b0], "sv": repr(sv)}
            if not isinstance(sv[i], float) or sv[i] != sv[i] or abs(sv[i]) > L / 2:
                acc.violation("C15:separation-exceeds-half-box", f"separation_vector({a0},{b0})[{i}] = {sv[i]!r}", w)
                continue
            tol = 4 * F(math.ulp(max(L, abs(a0[i]), abs(b0[i]))))
            if _circ(F(sv[i]), F(b0[i]) - F(a0[i]), L) > tol:
                acc.violation("C15:separation-not-congruent", f"separation_vector({a0},{b0})[{i}] = {sv[i]!r}", w)
        # correct_position (in place) = entry-wise
        p = list(a0)
        pb.correct_position(p)
        want = [pb.correct_position_entry(a0[i], i) for i in range(dim)]
        if [repr(v) for v in p] != [repr(v) for v in want]:
            acc.violation("C15:correct-position-not-entrywise", f"correct_position({a0}) = {p}, entries {want}",
                          {"op": "cp", "a": [x.hex() for x in a0]})
        s = [b0[i] - a0[i] for i in range(dim)]
        s2 = list(s)
        pb.correct_separation(s2)
        want = [pb.correct_separation_entry(s[i], i) for i in range(dim)]
        if [repr(v) for v in s2] != [repr(v) for v in want]:
            acc.violation("C15:correct-separation-not-entrywise", f"correct_separation({s}) = {s2}, entries {want}",
                          {"op": "cs", "s": [x.hex() for x in s]})
    setting.reset()


def shard(acc, prop="C15", seed=0, shard=0, boxes=10, npos=300):
    rng = core.rng_for(prop, seed, "shard", shard)
    fixed = [1.0, 0.1, 12.836, 1e-3, 1e6, 3.7, 0.37, 2.0, 10.0]
    for b in range(boxes):
        dim = rng.choice([1, 2, 3])
        if rng.random() < 0.5:
            L = rng.choice(fixed) if rng.random() < 0.7 else gen.logu(rng, 1e-3, 1e6)
            lengths = [L] * dim
        else:
            lengths = [rng.choice(fixed) if rng.random() < 0.5 else gen.logu(rng, 1e-3, 1e6) for _ in range(dim)]
        run_box(acc, rng, dim, lengths, npos)
        if shard == 0 and b < 2:
            acc.sample({"dimension": dim, "system_lengths": lengths,
                        "example_positions": positions(core.rng_for("s", 0), lengths[0], 50)[40:50]})


def main(ctx):
    nshards = ctx.pick(16, 64)
    boxes, npos = ctx.pick((40, 600), (120, 4000))
    ctx.rule = ("cases = (box, position entry) / (box, separation entry) / (box, pair of positions); boxes: cubic and "
                "cuboid, dimension 1-3, lengths 1e-3..1e6; entries: 0, -0.0, +-denormal, -ulp(L)/4..-1e-300 (where % "
                "rounds to L), L-+ulp, kL+-ulp for |k|<=1e6, +-L/2-+ulp, random; oracle: exact x mod L in Fractions, "
                "strict half-open range, bitwise idempotence, |sep|<=L/2, congruence, bitwise cubic==cuboid; distinct "
                "= distinct (box kind, L, argument) tuples, all judged by the exact oracle")
    ctx.assumptions = ["fractions.Fraction arithmetic is exact", "congruence tolerance 1 ulp(L) for positions and "
                       "4 ulp(max(L,|args|)) for separations (roundings that correct code legitimately performs)"]
    jobs = [{"seed": ctx.seed, "shard": s, "boxes": boxes, "npos": npos} for s in range(nshards)]
    ctx.run_workers("vf.monitors.c15:shard", jobs)
    # the same contract on the arithmetic real runs perform (sampled), at simulation times up to the configured ends
    from vf.monitors import suite
    rj = suite.jobs_for(ctx, ("C15",), ctx.pick(6, 40), ctx.pick(3000, 40000), ctx.pick(1500, 15000), ctx.pick(2500, 20000),
                        shipped=["coulomb_atoms/power_bounded", "dipoles/dipole_motion", "water/coulomb_power_bounded_lj_inverted",
                                 "hard_disk_dipoles/hard_disk_dipoles_cells", "coulomb_atoms/cell_bounded"])
    suite.run_suite(ctx, ("C15",), rj, timeout=ctx.pick(900, 3000))
    ctx.require("in_run_position_corrections_checked", 2000)
    ctx.require("position_entries", 10000)
    ctx.require("separations_at_half_box", 100)
    ctx.require("cubic_vs_cuboid", 1000)
    ctx.require("boxes_cuboid", 5)


def replay(acc, w):
    import jellyfysh.setting as setting
    from jellyfysh.setting.hypercubic_setting import HypercubicSetting
    from jellyfysh.setting.hypercuboid_setting import HypercuboidSetting
    x = w["witness"]
    fh = float.fromhex
    setting.reset()
    if x["op"] in ("pos", "sep"):
        L = fh(x["L"])
        if x["box"] == "cubic":
            HypercubicSetting(beta=1.0, dimension=3, system_length=L)
        else:
            HypercuboidSetting(beta=1.0, dimension=3, system_lengths=[L] * 3)
        pb = setting.periodic_boundaries
        if x["op"] == "pos":
            check_position_entry(acc, pb, fh(x["x"]), min(x["i"], 2), L, x["box"])
        else:
            check_separation_entry(acc, pb, fh(x["s"]), min(x["i"], 2), L, x["box"], fh(x["s"]))
    elif x["op"] == "vec":
        lengths = [fh(v) for v in x["L"]]
        HypercuboidSetting(beta=1.0, dimension=len(lengths), system_lengths=lengths)
        pb = setting.periodic_boundaries
        a, b = [fh(v) for v in x["a"]], [fh(v) for v in x["b"]]
        sv = pb.separation_vector(a, b)
        for i, L in enumerate(lengths):
            if abs(sv[i]) > L / 2 or _circ(F(sv[i]), F(b[i]) - F(a[i]), L) > 4 * F(math.ulp(max(L, abs(a[i]), abs(b[i])))):
                acc.violation("C15:separation-vector", f"separation_vector({a},{b}) = {sv}", x)
    setting.reset()
