"""C18 - alias table exact; cell-veto proposals use the right rate, cell and bound."""
import math
import random
from fractions import Fraction as F

from vf import core, gen
from vf.measure import measure_1d

LEVEL = "exploration"


class Script:
    """Scripted random.choice / random.uniform / random.expovariate."""

    def __init__(self):
        self.row = 0
        self.u = 0.5
        self.e = 1.0
        self.calls = {"choice": 0, "uniform": 0, "expovariate": 0}
        self.uniform_args = []
        self.choice_len = None

    def choice(self, seq):
        self.calls["choice"] += 1
        self.choice_len = len(seq)
        return seq[self.row]

    def uniform(self, a, b):
        self.calls["uniform"] += 1
        self.uniform_args.append((a, b))
        return a + (b - a) * self.u

    def expovariate(self, lam):
        self.calls["expovariate"] += 1
        return self.e / lam

    def __enter__(self):
        self._old = (random.choice, random.uniform, random.expovariate)
        random.choice, random.uniform, random.expovariate = self.choice, self.uniform, self.expovariate
        return self

    def __exit__(self, *a):
        random.choice, random.uniform, random.expovariate = self._old


def gen_rates(rng):
    n = rng.choice([1, 2, 3, 4, 5, 8, 13, 27, 64, 100, 124, 342]) if rng.random() < 0.8 else rng.randint(1, 2000)
    style = rng.choice(["equal", "dominant", "zeros", "spread", "uniform", "mean", "ints"])
    if style == "equal":
        v = rng.choice([1.0, 0.1, 3.3e-7])
        r = [v] * n
    elif style == "dominant":
        r = [rng.uniform(0, 1e-3) for _ in range(n)]
        r[rng.randrange(n)] = 1e3
    elif style == "zeros":
        r = [rng.choice([0.0, 0.0, rng.uniform(0, 1)]) for _ in range(n)]
    elif style == "spread":
        r = [10 ** rng.uniform(-9, 6) for _ in range(n)]
    elif style == "uniform":
        r = [rng.uniform(0, 1) for _ in range(n)]
    elif style == "mean":  # many entries exactly equal to the mean
        r = [1.0] * n
        if n >= 3:
            r[0], r[1] = 0.5, 1.5
    else:
        r = [float(rng.randint(0, 5)) for _ in range(n)]
    if not any(x > 0 for x in r):
        r[rng.randrange(n)] = 1.0
    return r, style


def check_walker(acc, rates, style="replay"):
    from jellyfysh.event_handler.walker import Walker, WalkerItem
    n = len(rates)
    wit = {"rates": [x.hex() for x in rates], "n": n, "style": style}
    items = [WalkerItem(i, r) for i, r in enumerate(rates)]
    try:
        walker = Walker(items)
    except Exception as e:
        acc.violation("C18:alias-table-construction-raises", f"Walker({rates[:8]}... n={n}): {type(e).__name__}: {e}", wit)
        return
    exact_total = sum(F(r) for r in rates)
    if abs(F(walker.total_rate) - exact_total) > n * F(math.ulp(float(exact_total))):
        acc.violation("C18:total-rate", f"total_rate {walker.total_rate!r} != sum {float(exact_total)!r}", wit)
    prob = {}
    with Script() as s:
        s.row, s.u = 0, 0.5
        walker.sample_cell()
        nrows = s.choice_len
        if s.calls != {"choice": 1, "uniform": 1, "expovariate": 0}:
            acc.notes.append(f"unexpected draws in sample_cell: {s.calls}")
            acc.count("unexpected_draw_pattern")
        for row in range(nrows):
            s.row = row

            def f(u):
                s.u = u
                return walker.sample_cell()

            meas, answers, ends, nev = measure_1d(f, grid=16 if n > 64 else 64)
            acc.count("rows_integrated")
            acc.count("selections_evaluated", nev)
            for c in answers:
                if not rates[c] > 0:
                    key = ("C18:zero-rate-selected-at-endpoint" if meas.get(c, 0) < 1e-12 else "C18:zero-rate-selected")
                    acc.violation(key, f"Walker row {row}: cell {c} with rate {rates[c]!r} selected "
                                       f"(measure {meas.get(c, 0):.3e}, at {[e for e, v in ends.items() if v == c]})", wit)
            for c, m in meas.items():
                prob[c] = prob.get(c, 0.0) + m / nrows
    worst = 0.0
    tot = float(exact_total)
    for c in range(n):
        worst = max(worst, abs(prob.get(c, 0.0) - rates[c] / tot))
    acc.maxi("max_probability_error", worst)
    if worst > 1e-9:
        c = max(range(n), key=lambda c: abs(prob.get(c, 0.0) - rates[c] / tot))
        acc.violation("C18:alias-probability", f"P(cell {c}) = {prob.get(c, 0.0)!r}, rate/total = {rates[c] / tot!r} "
                                               f"(n={n}, style={style})", wit)
    acc.count("tables_checked")
    if any(r == 0 for r in rates):
        acc.count("tables_with_zero_rates")
    if n >= 100:
        acc.count("tables_large")


def shard_walker(acc, prop="C18", seed=0, shard=0, n=50):
    rng = core.rng_for(prop, seed, "walker", shard)
    directed = [[0.0, 1.0, 2.0], [1.0], [1.0, 0.0], [0.0, 0.0, 5.0, 0.0], [1.0, 2.0, 3.0, 4.0]]
    for i in range(n):
        if shard == 0 and i < len(directed):
            rates, style = directed[i], "directed"
        else:
            rates, style = gen_rates(rng)
        acc.case(("walker", tuple(rates)), nontrivial=len(rates) > 1)
        check_walker(acc, list(rates), style)
        if shard == 0 and i in (4, 6, 7):
            acc.sample({"rates": rates[:12], "n": len(rates), "style": style})


def main(ctx):
    nshards = ctx.pick(16, 64)
    n = ctx.pick(120, 3000)
    ctx.rule = ("alias-table case = rate vector (n = 1..2000; equal, one dominant, many zeros, magnitudes over 1e15, "
                "entries equal to the mean, small integers); random.choice is scripted to enumerate every table row and "
                "random.uniform is integrated per row (grid + end points 0, 2^-53, 1-2^-53 + bisection), giving the exact "
                "selection probability of every cell from the code's own answers; handler case = a real "
                "LeafUnitCellVetoEventHandler on real CuboidPeriodicCells (3..6 cells per side, cubic and cuboid boxes) with "
                "a real InnerPointEstimator, all three draws scripted: candidate time vs E/(beta*total*|c|*speed), target "
                "offset distribution vs bound/total (rows enumerated, uniform integrated), confirmation limit vs the bound "
                "recomputed by the harness for the target's offset, empty target cell; non-trivial = more than one cell")
    ctx.assumptions = ["Walker.sample_cell draws exactly one random.choice and one random.uniform (checked)"]
    jobs = [{"seed": ctx.seed, "shard": s, "n": n} for s in range(nshards)]
    ctx.run_workers("vf.monitors.c18:shard_walker", jobs)
    hj = [{"seed": ctx.seed, "shard": s, "grids": ctx.pick(1, 4)} for s in range(ctx.pick(16, 64))]
    ctx.run_workers("vf.monitors.c18:shard_handler", hj, timeout=1800)
    ctx.require("handler_grids", 8)
    ctx.require("candidate_times_checked", 2000)
    ctx.require("offset_distributions_checked", 20)
    ctx.require("confirmation_limits_checked", 100)
    ctx.require("empty_target_checks", 100)
    ctx.require("composite_offset_distributions_checked", 5)
    ctx.require("tables_checked", 500)
    ctx.require("tables_with_zero_rates", 50)
    ctx.require("tables_large", 50)


def replay(acc, w):
    x = w["witness"]
    if "rates" in x:
        check_walker(acc, [float.fromhex(v) for v in x["rates"]])


# -- cell-veto handler: rate, target cell, stored bound ------------------------------------------------------------------
def check_handler(acc, rng, cps, layers, lengths, power, prefactor, use_charge, npos=6, composite=False):
    """Real LeafUnitCellVetoEventHandler on real CuboidPeriodicCells with a real InnerPointEstimator; all draws scripted."""
    import contextlib
    import io
    import itertools
    from vf.jf import init_setting
    import jellyfysh.setting as setting
    from jellyfysh.activator.internal_state.cell_occupancy.cells.cuboid_periodic_cells import CuboidPeriodicCells
    from jellyfysh.base.node import Node
    from jellyfysh.base.time import Time
    from jellyfysh.base.unit import Unit
    from jellyfysh.estimator.inner_point_estimator import InnerPointEstimator
    from jellyfysh.event_handler.leaf_unit_cell_veto_event_handler import LeafUnitCellVetoEventHandler
    from jellyfysh.potential.inverse_power_potential import InversePowerPotential
    beta = rng.choice([1.0, 2.0, 0.5])
    if composite:
        use_charge = True
        init_setting(3, lengths, beta=beta, roots=3, per_root=2, levels=2)
    else:
        init_setting(3, lengths, beta=beta)
    cells = CuboidPeriodicCells(cells_per_side=list(cps), neighbor_layers=layers)
    pot = InversePowerPotential(power=float(power), prefactor=prefactor)
    est_pref = rng.choice([1.0, 1.5])
    est = InnerPointEstimator(potential=pot, prefactor=est_pref, points_per_side=2,
                              target_charge=1.0 if use_charge else None) if use_charge else \
        InnerPointEstimator(potential=pot, prefactor=est_pref, points_per_side=2)
    wit = {"kind": "handler", "cps": list(cps), "layers": layers, "L": list(lengths), "power": power,
           "prefactor": prefactor, "charge": use_charge}
    h = LeafUnitCellVetoEventHandler(estimator=est, charge="q" if use_charge else None)
    if composite:
        from jellyfysh.estimator.dipole_inner_point_estimator import DipoleInnerPointEstimator
        from jellyfysh.event_handler.composite_object_cell_veto_event_handler import CompositeObjectCellVetoEventHandler
        from jellyfysh.lifting.inside_first_lifting import InsideFirstLifting
        est = DipoleInnerPointEstimator(potential=pot, dipole_separation=0.05 * min(lengths), prefactor=est_pref,
                                        points_per_side=2, dipole_charge=1.0)
        h = CompositeObjectCellVetoEventHandler(estimator=est, lifting=InsideFirstLifting(), charge="q")
        wit["composite"] = True
        acc.count("handler_grids_composite")
    with contextlib.redirect_stdout(io.StringIO()):
        h.initialize(cells, 1)
    by_id = {tuple(c.identifier): c for c in cells.yield_cells()}
    zero = by_id[(0, 0, 0)]
    side = [lengths[d] / cps[d] for d in range(3)]
    # independent bounds: index arithmetic for the non-nearby offsets, estimator called by the harness
    offsets = []
    for off in itertools.product(*[range(n) for n in cps]):
        if all(min(off[d], cps[d] - off[d]) <= layers for d in range(3)):
            continue
        offsets.append(off)
    bounds = {}
    for off in offsets:
        c = by_id[off]
        lo = [c.cell_min[d] - zero.cell_max[d] for d in range(3)]
        hi = [c.cell_max[d] - zero.cell_min[d] for d in range(3)]
        for d in range(3):
            ub, lb = est.derivative_bound(lo, hi, d, calculate_lower_bound=True)
            bounds[(off, d)] = (ub, -lb)
    acc.count("handler_grids")
    for trial in range(npos):
        d = rng.randrange(3)
        speed = rng.choice([1.0, 1.0, 2.0, 0.25, 3.7])
        q_active = rng.choice([1.0, -1.0, 0.5, -2.0]) if use_charge else 1.0
        acell = by_id[tuple(rng.randrange(n) for n in cps)]
        pos = [rng.uniform(acell.cell_min[k], acell.cell_max[k]) for k in range(3)]
        stamp = (float(rng.choice([0, 3, 10 ** 6])), rng.random())
        cf = est.charge_correction_factor(q_active) if use_charge else 1.0
        idx = 0 if cf > 0 else 1
        # composite objects: the cell is that of the ROOT unit; the active point mass may sit across a cell face
        leaf_off = [rng.choice([-1, 1]) * 0.025 * min(lengths) if k2 == (d + 1) % 3 else 0.0 for k2 in range(3)]
        total = sum(max(bounds[(off, d)][idx], 0.0) for off in offsets)
        if total <= 0:
            continue

        def fresh_in_state():
            vel = [0.0, 0.0, 0.0]
            vel[d] = speed
            if composite:
                root = Node(Unit(identifier=(0,), position=list(pos), velocity=[0.5 * c for c in vel],
                                 time_stamp=Time(*stamp)), weight=1)
                lp = [(pos[k2] + leaf_off[k2]) % lengths[k2] for k2 in range(3)]
                op = [(pos[k2] - leaf_off[k2]) % lengths[k2] for k2 in range(3)]
                root.add_child(Node(Unit(identifier=(0, 0), position=lp, charge={"q": q_active}, velocity=vel,
                                         time_stamp=Time(*stamp)), weight=0.5))
                root.add_child(Node(Unit(identifier=(0, 1), position=op, charge={"q": -q_active}), weight=0.5))
                return [root]
            u = Unit(identifier=(0,), position=list(pos), charge={"q": q_active} if use_charge else None,
                     velocity=vel, time_stamp=Time(*stamp))
            return [Node(u, weight=1)]

        # distribution over offsets + per-call checks
        prob = {}
        with Script() as s:
            s.e = rng.choice([1.0, 0.37, 2.2])
            s.row, s.u = 0, 0.5
            h.send_event_time(fresh_in_state())
            nrows = s.choice_len
            for row in range(nrows):
                s.row = row

                def f(u):
                    s.u = u
                    s.uniform_args.clear()
                    t, (target,) = h.send_event_time(fresh_in_state())
                    off = tuple((target.identifier[k] - acell.identifier[k]) % cps[k] for k in range(3))
                    return (off, (t.quotient, t.remainder))

                meas, answers, ends, nev = measure_1d(f, grid=8)
                acc.count("handler_calls", nev)
                for (off, t), m in meas.items():
                    prob[off] = prob.get(off, 0.0) + m / nrows
                for off, t in answers:
                    want_dt = s.e / beta / (total * abs(cf) * speed)
                    got_dt = (t[0] - stamp[0]) + (t[1] - stamp[1])
                    acc.count("candidate_times_checked")
                    if abs(got_dt - want_dt) > 1e-9 * want_dt + 1e-15:  # the remainder of a Time resolves 1e-16
                        acc.violation("C18:cell-veto-rate", f"candidate after {got_dt!r}, expected E/(beta*total*|c|*speed) = "
                                                            f"{want_dt!r} (speed {speed}, charge factor {cf}, total {total!r})",
                                      dict(wit, speed=speed, d=d, cf=cf))
                        return
                    if (off, d) not in bounds:
                        acc.violation("C18:cell-veto-target-nearby", f"target offset {off} is a nearby cell", wit)
                        return
                    if not bounds[(off, d)][idx] > 0:
                        acc.violation("C18:cell-veto-zero-rate-cell", f"target offset {off} has bound "
                                                                      f"{bounds[(off, d)][idx]!r} <= 0", wit)
                        return
        worst = max(abs(prob.get(off, 0.0) - max(bounds[(off, d)][idx], 0.0) / total) for off in offsets)
        acc.maxi("max_offset_probability_error", worst)
        acc.count("offset_distributions_checked")
        if worst > 1e-9:
            off = max(offsets, key=lambda o: abs(prob.get(o, 0.0) - max(bounds[(o, d)][idx], 0.0) / total))
            acc.violation("C18:cell-veto-offset-distribution",
                          f"direction {d}, charge factor {cf}: P(offset {off}) = {prob.get(off, 0.0)!r}, bound/total = "
                          f"{max(bounds[(off, d)][idx], 0.0) / total!r}", dict(wit, d=d, cf=cf))
            return
        if composite:
            acc.count("composite_offset_distributions_checked")
            continue
        # confirmation draw: upper limit = bound stored for the target's offset and direction (times charge factor)
        for _ in range(12):
            with Script() as s:
                s.row = rng.randrange(nrows)
                s.u = rng.random()
                s.e = 1.0
                t, (target,) = h.send_event_time(fresh_in_state())
                off = tuple((target.identifier[k] - acell.identifier[k]) % cps[k] for k in range(3))
                tpos = [rng.uniform(target.cell_min[k], target.cell_max[k]) for k in range(3)]
                q_t = rng.choice([1.0, -1.0]) if use_charge else 1.0
                tu = Unit(identifier=(1,), position=list(tpos), charge={"q": q_t} if use_charge else None)
                s.uniform_args.clear()
                s.u = 0.999999
                out = h.send_out_state(Node(tu, weight=1))
                if s.uniform_args:
                    a, b = s.uniform_args[-1]
                    want = bounds[(off, d)][idx] * abs(cf)
                    acc.count("confirmation_limits_checked")
                    if a != 0 or abs(b - want) > 1e-9 * abs(want):
                        acc.violation("C18:cell-veto-confirmation-bound",
                                      f"confirmation draw uniform({a!r}, {b!r}) but the bound stored for offset {off}, "
                                      f"direction {d} times |charge factor| is {want!r}", dict(wit, d=d, cf=cf, off=list(off)))
                        return
            # empty target cell: nothing but time slicing
            with Script() as s:
                s.row, s.u, s.e = rng.randrange(nrows), rng.random(), 0.5
                t, (target,) = h.send_event_time(fresh_in_state())
                out = h.send_out_state(None)
                u = out[0].value
                dt = (t.quotient - stamp[0]) + (t.remainder - stamp[1])
                wantpos = list(pos)
                wantpos[d] = (pos[d] + speed * dt) % lengths[d]
                acc.count("empty_target_checks")
                if (len(out) != 1 or u.velocity is None or u.velocity[d] != speed
                        or any(abs(u.position[k] - wantpos[k]) > 1e-9 * lengths[k] and
                               abs(abs(u.position[k] - wantpos[k]) - lengths[k]) > 1e-9 * lengths[k] for k in range(3))
                        or (u.time_stamp.quotient, u.time_stamp.remainder) != (t.quotient, t.remainder)):
                    acc.violation("C18:cell-veto-empty-target", f"empty target cell: out-state {u.position}, {u.velocity}, "
                                                                f"{u.time_stamp!r}; expected position {wantpos}", wit)
                    return
    setting.reset()


def shard_handler(acc, prop="C18", seed=0, shard=0, grids=1):
    rng = core.rng_for(prop, seed, "handler", shard)
    for g in range(grids):
        cps = [rng.randint(3, 6) for _ in range(3)]
        if all(c <= 3 for c in cps):
            cps[rng.randrange(3)] = 5
        layers = 1
        L = rng.choice([1.0, 2.0, 0.7])
        lengths = [L] * 3 if rng.random() < 0.6 else [L, L * 1.3, L * 0.8]
        if not any(c > 2 * layers + 1 for c in cps):
            continue
        acc.case(("handler", tuple(cps), tuple(lengths)), nontrivial=True)
        check_handler(acc, rng, cps, layers, lengths, rng.choice([1, 2, 6]), rng.choice([1.0, 0.3]), rng.random() < 0.6,
                      composite=(shard + g) % 3 == 2)
        if shard == 0 and g == 0:
            acc.sample({"cells_per_side": cps, "system_lengths": lengths, "neighbor_layers": layers})
