"""C18 - alias table exact; cell-veto proposals use the right rate, cell and bound."""
import math
import random
from fractions import Fraction as F

from vf import core, gen
from vf.measure import measure_1d

LEVEL = "exploration"


class Script:
    """Scripted random.choice / random.uniform / random.expovariate."""

    def __init__(self):
        self.row = 0
        self.u = 0.5
        self.e = 1.0
        self.calls = {"choice": 0, "uniform": 0, "expovariate": 0}
        self.uniform_args = []
        self.choice_len = None

    def choice(self, seq):
        self.calls["choice"] += 1
        self.choice_len = len(seq)
        return seq[self.row]

    def uniform(self, a, b):
        self.calls["uniform"] += 1
        self.uniform_args.append((a, b))
        return a + (b - a) * self.u

    def expovariate(self, lam):
        self.calls["expovariate"] += 1
        return self.e / lam

    def __enter__(self):
        self._old = (random.choice, random.uniform, random.expovariate)
        random.choice, random.uniform, random.expovariate = self.choice, self.uniform, self.expovariate
        return self

    def __exit__(self, *a):
        random.choice, random.uniform, random.expovariate = self._old


def gen_rates(rng):
    n = rng.choice([1, 2, 3, 4, 5, 8, 13, 27, 64, 100, 124, 342]) if rng.random() < 0.8 else rng.randint(1, 2000)
    style = rng.choice(["equal", "dominant", "zeros", "spread", "uniform", "mean", "ints"])
    if style == "equal":
        v = rng.choice([1.0, 0.1, 3.3e-7])
        r = [v] * n
    elif style == "dominant":
        r = [rng.uniform(0, 1e-3) for _ in range(n)]
        r[rng.randrange(n)] = 1e3
    elif style == "zeros":
        r = [rng.choice([0.0, 0.0, rng.uniform(0, 1)]) for _ in range(n)]
    elif style == "spread":
        r = [10 ** rng.uniform(-9, 6) for _ in range(n)]
    elif style == "uniform":
        r = [rng.uniform(0, 1) for _ in range(n)]
    elif style == "mean":  # many entries exactly equal to the mean
        r = [1.0] * n
        if n >= 3:
            r[0], r[1] = 0.5, 1.5
    else:
        r = [float(rng.randint(0, 5)) for _ in range(n)]
    if not any(x > 0 for x in r):
        r[rng.randrange(n)] = 1.0
    return r, style


def check_walker(acc, rates, style="replay"):
    from jellyfysh.event_handler.walker import Walker, WalkerItem
    n = len(rates)
    wit = {"rates": [x.hex() for x in rates], "n": n, "style": style}
    items = [WalkerItem(i, r) for i, r in enumerate(rates)]
    try:
        walker = Walker(items)
    except Exception as e:
        acc.violation("C18:alias-table-construction-raises", f"Walker({rates[:8]}... n={n}): {type(e).__name__}: {e}", wit)
        return
    exact_total = sum(F(r) for r in rates)
    if abs(F(walker.total_rate) - exact_total) > n * F(math.ulp(float(exact_total))):
        acc.violation("C18:total-rate", f"total_rate {walker.total_rate!r} != sum {float(exact_total)!r}", wit)
    prob = {}
    with Script() as s:
        s.row, s.u = 0, 0.5
        walker.sample_cell()
        nrows = s.choice_len
        if s.calls != {"choice": 1, "uniform": 1, "expovariate": 0}:
            acc.notes.append(f"unexpected draws in sample_cell: {s.calls}")
            acc.count("unexpected_draw_pattern")
        for row in range(nrows):
            s.row = row

            def f(u):
                s.u = u
                return walker.sample_cell()

            meas, answers, ends, nev = measure_1d(f, grid=16 if n > 64 else 64)
            acc.count("rows_integrated")
            acc.count("selections_evaluated", nev)
            for c in answers:
                if not rates[c] > 0:
                    key = ("C18:zero-rate-selected-at-endpoint" if meas.get(c, 0) < 1e-12 else "C18:zero-rate-selected")
                    acc.violation(key, f"Walker row {row}: cell {c} with rate {rates[c]!r} selected "
                                       f"(measure {meas.get(c, 0):.3e}, at {[e for e, v in ends.items() if v == c]})", wit)
            for c, m in meas.items():
                prob[c] = prob.get(c, 0.0) + m / nrows
    worst = 0.0
    tot = float(exact_total)
    for c in range(n):
        worst = max(worst, abs(prob.get(c, 0.0) - rates[c] / tot))
    acc.maxi("max_probability_error", worst)
    if worst > 1e-9:
        c = max(range(n), key=lambda c: abs(prob.get(c, 0.0) - rates[c] / tot))
        acc.violation("C18:alias-probability", f"P(cell {c}) = {prob.get(c, 0.0)!r}, rate/total = {rates[c] / tot!r} "
                                               f"(n={n}, style={style})", wit)
    acc.count("tables_checked")
    if any(r == 0 for r in rates):
        acc.count("tables_with_zero_rates")
    if n >= 100:
        acc.count("tables_large")


def shard_walker(acc, prop="C18", seed=0, shard=0, n=50):
    rng = core.rng_for(prop, seed, "walker", shard)
    directed = [[0.0, 1.0, 2.0], [1.0], [1.0, 0.0], [0.0, 0.0, 5.0, 0.0], [1.0, 2.0, 3.0, 4.0]]
    for i in range(n):
        if shard == 0 and i < len(directed):
            rates, style = directed[i], "directed"
        else:
            rates, style = gen_rates(rng)
        acc.case(("walker", tuple(rates)), nontrivial=len(rates) > 1)
        check_walker(acc, list(rates), style)
        if shard == 0 and i in (4, 6, 7):
            acc.sample({"rates": rates[:12], "n": len(rates), "style": style})


def main(ctx):
    nshards = ctx.pick(16, 64)
    n = ctx.pick(120, 3000)
    ctx.rule = ("alias-table case = rate vector (n = 1..2000; equal, one dominant, many zeros, magnitudes over 1e15, "
                "entries equal to the mean, small integers); random.choice is scripted to enumerate every table row and "
                "random.uniform is integrated per row (grid + end points 0, 2^-53, 1-2^-53 + bisection), giving the exact "
                "selection probability of every cell from the code's own answers; non-trivial = more than one cell")
    ctx.assumptions = ["Walker.sample_cell draws exactly one random.choice and one random.uniform (checked)"]
    jobs = [{"seed": ctx.seed, "shard": s, "n": n} for s in range(nshards)]
    ctx.run_workers("vf.monitors.c18:shard_walker", jobs)
    ctx.require("tables_checked", 500)
    ctx.require("tables_with_zero_rates", 50)
    ctx.require("tables_large", 50)


def replay(acc, w):
    x = w["witness"]
    if "rates" in x:
        check_walker(acc, [float.fromhex(v) for v in x["rates"]])
