"""C10 - cell-based and file-based factor decompositions cover each partner exactly once."""
import itertools
import os
import shutil

from vf import core
from vf.monitors import c07, suite

LEVEL = "exploration"
import contextlib
import io
PROPS = ("C10",)
replay_run = c07.replay


# -- part 2: factor files ------------------------------------------------------------------------------------------------
def gen_factor_file(rng, k):
    """Well-formed factor file for composite objects of k point masses: arbitrary intra sets, symmetric inter sets."""
    lines = []
    labels = ["Alpha", "Beta", "Gamma", "Delta"]
    used = {}
    for lab in rng.sample(labels, rng.randint(1, 3)):
        local = rng.random() < 0.5 and k >= 2
        sets = []
        for _ in range(rng.randint(1, 4)):
            if local:
                s = tuple(sorted(rng.sample(range(k), rng.randint(2 if k >= 2 else 1, min(k, 3)))))
                sets.append(s)
            else:
                a = tuple(sorted(rng.sample(range(k), rng.randint(1, min(k, 2)))))
                b = tuple(sorted(rng.sample(range(k), rng.randint(1, min(k, 2)))))
                s1 = a + tuple(x + k for x in b)
                s2 = b + tuple(x + k for x in a)   # mirror image: exchange of the two composite objects
                sets.append(s1)
                if tuple(sorted(s2)) != tuple(sorted(s1)):
                    sets.append(tuple(sorted(s2)))
        sets = list(dict.fromkeys(sets))
        used[lab] = (local, sets)
        for s in sets:
            w = list(s)
            if rng.random() < 0.5:
                rng.shuffle(w)       # the order in which a line lists its indices carries no meaning
            lines.append(f"[{', '.join(str(i) for i in w)}], {lab}")
    rng.shuffle(lines)
    return lines, used


def expected_in_states(local, sets, k, nroots, active):
    r, a = active
    out = []
    for s in sets:
        if local:
            if a in s:
                out.append(tuple((r, i) for i in s))
        else:
            if a in [i for i in s if i < k]:
                for r2 in range(nroots):
                    if r2 != r:
                        out.append(tuple((r, i) if i < k else (r2, i - k) for i in s))
    return out


def shard_files(acc, prop="C10", seed=0, shard=0, n=50):
    from vf.jf import init_setting
    import jellyfysh.setting as setting
    from jellyfysh.activator.tagger.factor_type_maps import FactorTypeMaps
    from jellyfysh.activator.tagger.factor_type_map_in_state_tagger import FactorTypeMapInStateTagger
    from jellyfysh.base.node import Node
    from jellyfysh.base.strings import to_snake_case
    from jellyfysh.base.unit import Unit
    from jellyfysh.event_handler.two_leaf_unit_event_handler import TwoLeafUnitEventHandler
    from jellyfysh.potential.inverse_power_potential import InversePowerPotential
    rng = core.rng_for(prop, seed, "files", shard)
    wd = os.path.join(core.WORK, f"c10-{os.getpid()}")
    os.makedirs(wd, exist_ok=True)
    shipped = {"factor_set_dipoles_atomic.txt": 2, "factor_set_dipoles_dipole.txt": 2, "factor_set_water.txt": 3,
               "factor_set_water_atomic.txt": 3, "factor_set_hard_disk_dipoles.txt": 2, "factor_set_coulomb_atoms.txt": 1}
    try:
        for i in range(n):
            if shard == 0 and i < len(shipped):
                fname = sorted(shipped)[i]
                k = shipped[fname]
                path = os.path.join(core.REPO, "jellyfysh", "config_files", "factor_set_files", fname)
                lines = [ln.strip() for ln in open(path) if ln.strip() and not ln.startswith("#")]
                used = {}
                for ln in lines:
                    idx, lab = ln.rsplit(",", 1)
                    s = tuple(int(x) for x in idx.strip()[1:-1].split(","))
                    used.setdefault(lab.strip(), [all(x < k for x in s), []])[1].append(s)
                used = {lab: (v[0], v[1]) for lab, v in used.items()}
            else:
                k = rng.randint(1, 4)
                lines, used = gen_factor_file(rng, k)
                path = os.path.join(wd, f"f{i}.txt")
                with open(path, "w") as f:
                    f.write("# generated\n" + "\n".join(lines) + "\n")
            nroots = rng.randint(2, 6)
            init_setting(3, [1.0] * 3, roots=nroots, per_root=k, levels=2 if k > 1 else 1)
            FactorTypeMaps._instance = None
            ftm = FactorTypeMaps(path)
            acc.case(("file", tuple(lines)), nontrivial=len(lines) > 1)
            acc.count("factor_files")
            if shard == 0 and i in (0, 7):
                acc.sample({"factor_file": lines, "point_masses_per_object": k, "objects": nroots})
            # a factor type the file does not list falls back to 'every point mass of every other object' (with a warning)
            handler = TwoLeafUnitEventHandler(potential=InversePowerPotential(power=2.0, prefactor=1.0))
            with contextlib.redirect_stdout(io.StringIO()), contextlib.redirect_stderr(io.StringIO()):
                tagger = FactorTypeMapInStateTagger(create=[], trash=[], event_handler=handler, number_event_handlers=1,
                                                    factor_type_maps=ftm, tag="x", factor_type_maps_label="omega_not_in_file")
                tagger.initialize()
            for r in range(nroots):
                for a in range(k):
                    ident = (r, a) if k > 1 else (r,)
                    root = Node(Unit(identifier=(r,), position=[0.1] * 3, velocity=[1.0, 0, 0]), weight=1)
                    if k > 1:
                        root.add_child(Node(Unit(identifier=ident, position=[0.1] * 3, velocity=[1.0, 0, 0]), weight=1 / k))
                    got = sorted(tuple(sorted(x)) for x in tagger.yield_identifiers_send_event_time([root]))
                    want = sorted(tuple(sorted((ident, (r2, b) if k > 1 else (r2,)))) for r2 in range(nroots) if r2 != r
                                  for b in range(k))
                    acc.count("fallback_map_checks")
                    if got != want:
                        acc.violation("C10:factor-file-in-states",
                                      f"factor type missing from the file {lines} (all-pairs fallback), active {ident} of "
                                      f"{nroots} objects x {k}: got {got[:4]}... ({len(got)}), expected {want[:4]}... ({len(want)})",
                                      {"kind": "file", "lines": lines, "k": k, "nroots": nroots, "label": "omega_not_in_file"})
                        break
            for lab, (local, sets) in used.items():
                if k == 1:
                    continue  # without composite objects the file is ignored by design (all pairs interact)
                handler = TwoLeafUnitEventHandler(potential=InversePowerPotential(power=2.0, prefactor=1.0))
                tagger = FactorTypeMapInStateTagger(create=[], trash=[], event_handler=handler, number_event_handlers=1,
                                                    factor_type_maps=ftm, tag="x", factor_type_maps_label=to_snake_case(lab))
                tagger.initialize()
                for r in range(nroots):
                    for a in range(k):
                        root = Node(Unit(identifier=(r,), position=[0.1] * 3, velocity=[0.5, 0, 0]), weight=1)
                        root.add_child(Node(Unit(identifier=(r, a), position=[0.1] * 3, velocity=[1.0, 0, 0]), weight=1 / k))
                        got = list(tagger.yield_identifiers_send_event_time([root]))
                        want = expected_in_states(local, sets, k, nroots, (r, a))
                        acc.count("active_point_masses_checked")
                        if not local:
                            acc.count("inter_object_label_checks")
                        g = sorted(tuple(sorted(x)) for x in got)
                        w = sorted(tuple(sorted(x)) for x in set(want))
                        if g != w:
                            acc.violation("C10:factor-file-in-states",
                                          f"factor '{lab}' ({'intra' if local else 'inter'}) file {lines}: active ({r},{a}) of "
                                          f"{nroots} objects x {k}: got {g[:4]}..., expected {w[:4]}...",
                                          {"kind": "file", "lines": lines, "k": k, "nroots": nroots, "label": lab})
                            break
                    # the whole composite object moves (root mode after a mode switch): every one of its point masses is
                    # active, each needs exactly the index sets that contain it, a set shared by two of them only once
                    root = Node(Unit(identifier=(r,), position=[0.1] * 3, velocity=[1.0, 0, 0]), weight=1)
                    for a in range(k):
                        root.add_child(Node(Unit(identifier=(r, a), position=[0.1] * 3, velocity=[1.0, 0, 0]), weight=1 / k))
                    got = list(tagger.yield_identifiers_send_event_time([root]))
                    want = set()
                    for a in range(k):
                        want.update(tuple(sorted(x)) for x in expected_in_states(local, sets, k, nroots, (r, a)))
                    acc.count("root_mode_active_objects_checked")
                    g = sorted(tuple(sorted(x)) for x in got)
                    if g != sorted(want):
                        acc.violation("C10:factor-file-in-states",
                                      f"factor '{lab}' ({'intra' if local else 'inter'}) file {lines}: ALL point masses of object "
                                      f"{r} active ({nroots} objects x {k}): got {g[:4]}... ({len(g)}), expected "
                                      f"{sorted(want)[:4]}... ({len(want)})",
                                      {"kind": "file", "lines": lines, "k": k, "nroots": nroots, "label": lab, "root_mode": True})
                        break
    finally:
        shutil.rmtree(wd, ignore_errors=True)
        setting.reset()
        FactorTypeMaps._instance = None


def hostile_positions(rng, spec):
    """Move some start positions exactly onto cell faces / float neighbours of faces / into the same cell."""
    import math
    p = spec["params"]
    cps = p["cells"]["cells_per_side"]
    L = p["lengths"]
    pos = p["positions"]
    for q in pos:
        c = rng.random()
        if c < 0.3:
            d = rng.randrange(len(L))
            face = rng.randrange(cps[d]) * (L[d] / cps[d])
            q[d] = max(0.0, math.nextafter(face, rng.choice([-math.inf, math.inf])) if rng.random() < 0.6 else face)
            if q[d] >= L[d]:
                q[d] = math.nextafter(L[d], 0.0)
            # no two units share a coordinate exactly (an exactly head-on pair makes the inverse-power inversion divide by
            # zero - that input class belongs to C02, here it would only abort the run)
            while any(o is not q and o[d] == q[d] for o in pos):
                q[d] = math.nextafter(q[d], math.inf)
        elif c < 0.45 and len(pos) > 1:
            o = rng.choice(pos)
            if o is q:
                continue
            for d in range(len(L)):
                q[d] = min(max(o[d] + rng.uniform(-0.3, 0.3) * L[d] / cps[d], 0.0), math.nextafter(L[d], 0.0))
            d = rng.randrange(len(L))   # never closer than 0.15 cell sides (steep potentials stay well conditioned)
            q[d] = (o[d] + rng.choice([-1, 1]) * rng.uniform(0.15, 0.3) * L[d] / cps[d]) % L[d]
    return spec


def main(ctx):
    ctx.rule = ("part 1: case = one instrumented run with a cell system; after EVERY activator call the targets of the "
                "excluded-cells, surplus and cell-bounding taggers (fresh generator output) and the occupants of every target "
                "cell the real cell-veto handler can sample (deep copy of the handler driven through all alias rows with "
                "scripted draws, mapped through the real translate and occupancy lookup) are collected as a multiset and "
                "compared with the set of all other relevant units from the true positions; scenarios: shipped cell "
                "configurations + generated soft spheres with cell-veto / cell-bounding / nearby-only families, occupant limits "
                "1, 2, unbounded, units placed exactly on cell faces and several per cell; part 2: case = (factor file, active "
                "point mass): generated well-formed files (symmetric inter-object sets, arbitrary intra-object sets, 1-4 point "
                "masses, 2-6 objects) + the six shipped files through the real FactorTypeMaps/FactorTypeMapInStateTagger vs a "
                "20-line parser of the harness; distinct = scenarios + files")
    ctx.assumptions = ["cell-veto domains are enumerated on a deep copy of an initialised handler (the tagger itself deep-copies "
                       "handlers), cached per (tagger, active cell, direction, charge)",
                       "for hard-core cell configurations without a far family only nearby+surplus coverage is judged"]
    names = [n for n in suite.scenario.SHIPPED if "cell" in n]
    sh_ev, slow_ev, gen_ev = ctx.pick((800, 500, 500), (5000, 3000, 3000))
    n_gen = ctx.pick(96, 500)
    jobs = suite.jobs_for(ctx, PROPS, n_gen, sh_ev, slow_ev, gen_ev, shipped=names,
                          families=["soft_cells_veto", "soft_cells_far", "hard_cells", "soft_cells_veto", "soft_cells"],
                          seeds=ctx.pick((0,), (0, 1)))
    rng = core.rng_for("C10", ctx.seed, "hostile")
    for j in jobs:
        if j["spec"]["kind"] == "spheres" and j["spec"]["family"].startswith("soft") and rng.random() < 0.6:
            hostile_positions(rng, j["spec"])
    suite.run_suite(ctx, PROPS, jobs, timeout=ctx.pick(900, 3000))
    ctx.run_workers("vf.monitors.c10:shard_files", [{"seed": ctx.seed, "shard": s, "n": ctx.pick(150, 800)}
                                                    for s in range(ctx.pick(8, 32))])
    ctx.require("partition_checks", 3000)
    ctx.require("full_partitions_confirmed", 2000)
    ctx.require("veto_domains_enumerated", 50)
    ctx.require("partition_checks_without_far_family", 100)
    ctx.require("factor_files", 300)
    ctx.require("active_point_masses_checked", 3000)
    ctx.require("inter_object_label_checks", 500)


def replay(acc, w):
    x = w["witness"]
    if x.get("kind") == "file":
        acc.notes.append("replay a factor-file witness by re-running shard_files with the recorded seed")
    else:
        replay_run(acc, w)
