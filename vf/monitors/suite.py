"""Scenario suites shared by the run-based checks (C07, C08, C09, C11, C12, C13, C17)."""
import math

from vf import core, scenario

FAST_SHIPPED = [n for n in scenario.SHIPPED if n not in scenario.SLOW]


DEFAULT_FAMILIES = ["soft", "soft_cells", "molecules", "hard", "soft_cells_far", "hard_cells", "molecules", "soft_dense"]


def lattice_positions(rng, dim, lengths, n, radius):
    """Non-overlapping hard-sphere start: jittered lattice."""
    per = math.ceil(n ** (1.0 / dim))
    cell = [L / per for L in lengths]
    slack = [c / 2 - radius * 1.05 for c in cell]
    if min(slack) <= 0:
        raise ValueError("too dense")
    pts = []
    import itertools
    sites = list(itertools.product(range(per), repeat=dim))
    rng.shuffle(sites)
    for site in sites[:n]:
        pts.append([(site[d] + 0.5) * cell[d] + rng.uniform(-1, 1) * slack[d] * 0.8 for d in range(dim)])
    return pts


def gen_spec(rng, family=None):
    """A legal generated scenario (legal = within what the classes document as supported)."""
    family = family or rng.choice(["soft", "soft", "soft_cells", "soft_cells_far", "hard", "hard_cells"])
    if family == "soft_dense":
        # uniformly random start with a steep repulsion: close pairs at energies of 1e15..1e25 kT, where the sampled
        # potential change is below the floating-point resolution of the current potential (regression scenario for the
        # rounding-negative displacement that used to trip the scheduler's monotonicity guard)
        spec = gen_spec(rng, rng.choice(["soft", "soft_cells"]))
        p = spec["params"]
        p.pop("positions", None)
        p["potential"], p["power"], p["prefactor"], p["n"] = "inverse_power", 12, 0.1, rng.randint(8, 14)
        p["initial_active"] = rng.randrange(p["n"])
        spec["family"] = "soft_dense"
        return spec
    dim = rng.choice([2, 3]) if family in ("soft", "soft_cells") else (3 if family in ("soft_cells_far", "soft_cells_veto") else 2)
    if rng.random() < 0.5 or family in ("soft_cells_far", "soft_cells_veto"):
        L = rng.choice([1.0, 1.0, 2.5, 0.8])
        lengths = [L] * dim
    else:
        lengths = [rng.choice([1.0, 1.3, 0.9, 2.0]) for _ in range(dim)]
    p = {"dim": dim, "lengths": lengths, "beta": rng.choice([1.0, 0.5, 2.0]),
         "scheduler": rng.choice(["heap_scheduler", "list_scheduler"]),
         "sampling_interval": rng.choice([0.0731, 0.2113, 0.37, 0.9137]), "chain_time": rng.choice([0.3137, 0.7071, 1.9319, 0.0517]),
         "end": rng.choice([13.7, 29.3, 8.11]), "first_sample_zero": rng.random() < 0.4,
         "initial_direction": rng.randrange(dim), "speed": rng.choice([1.0, 1.0, 0.5, 3.0])}
    if rng.random() < 0.25:
        p["force_cuboid"] = True
    if family.startswith("soft"):
        p["n"] = rng.randint(2, 12) if family not in ("soft_cells_far", "soft_cells_veto") else rng.randint(2, 9)
        p["potential"] = rng.choice(["inverse_power", "inverse_power", "lennard_jones"]) if family == "soft" else "inverse_power"
        p["power"] = rng.choice([1, 2, 6, 12])
        p["prefactor"] = rng.choice([1e-3, 1e-2, 0.1, 1.0])   # repulsive only: an attractive inverse power collapses (Zeno)
        p["sigma"] = rng.choice([0.1, 0.2]) * min(lengths)
        p["initial_active"] = rng.randrange(p["n"])
        # start from a jittered lattice: uniformly random starts put pairs arbitrarily close, where steep potentials reach
        # energies of 1e20 kT and the closed-form inversions are no longer well conditioned (that regime is C02's subject)
        per = math.ceil(p["n"] ** (1.0 / dim))
        p["positions"] = lattice_positions(rng, dim, lengths, p["n"], 0.2 * min(lengths) / per)
        nn = min(lengths) / per
        if p["potential"] == "inverse_power":
            p["prefactor"] = math.copysign(rng.choice([0.05, 0.5, 3.0]) * (0.6 * nn) ** p["power"], p["prefactor"])
        else:
            p["sigma"] = rng.choice([0.3, 0.5]) * nn
            p["prefactor"] = rng.choice([0.2, 1.0, 2.0])
        if family != "soft":
            lay = 1
            cps = [rng.randint(3, 6) for _ in range(dim)]
            p["cells"] = {"cells_per_side": cps, "layers": lay, "max_occupants": rng.choice([1, 1, 2, 0]),
                          "far": family in ("soft_cells_far", "soft_cells_veto"), "veto": family == "soft_cells_veto",
                          "points_per_side": 2}
            if family in ("soft_cells_far", "soft_cells_veto"):
                p["cells"]["max_occupants"] = 1  # the two-leaf-unit cell-bounding handler takes exactly one target
                if all(c <= 2 * lay + 1 for c in cps):
                    cps[rng.randrange(dim)] = rng.randint(2 * lay + 2, 6)   # a far family needs at least one non-nearby cell
    else:
        p["potential"] = "hard_sphere"
        p["eoc"] = rng.choice(["sequential", "periodic"])
        p["delta_phi_degree"] = rng.choice([37.0, 90.0, 211.0, 5.0])
        p["n"] = rng.randint(2, 16)
        per = math.ceil(p["n"] ** 0.5)
        p["radius"] = rng.choice([0.05, 0.1, 0.2]) * min(lengths) / per
        p["positions"] = lattice_positions(rng, dim, lengths, p["n"], p["radius"])
        p["initial_active"] = rng.randrange(p["n"])
        # the pair handler follows the nearest image found at the start of a leg: a leg must be shorter than
        # L/2 - 2r (as in the shipped hard-disk configurations), otherwise a collision with another image is missed
        p["chain_time"] = rng.choice([0.3, 0.6, 0.9]) * (min(lengths) / 2 - 2 * p["radius"]) / p["speed"]
        if family == "hard_cells":
            # cell side >= interaction range 2r (nearby cells then cover everything that can collide)
            cps = [max(3, min(7, int(L / (2 * p["radius"] * 1.01)))) for L in lengths]
            cps = [min(c, rng.randint(3, 7)) for c in cps]
            p["cells"] = {"cells_per_side": cps, "layers": 1, "max_occupants": rng.choice([1, 2, 0]), "far": False}
    p["chain_time"] *= 1 + math.pi * 1e-3
    p["sampling_interval"] *= 1 + math.sqrt(3) * 1e-3
    return {"kind": "spheres", "family": family, "params": p}


def gen_molecule_spec(rng, k=None, switching=None):
    """Composite objects of k = 2..4 point masses (harmonic chain) with inverse-power repulsion and mode switching."""
    k = k or rng.choice([2, 3, 3, 4])
    n = rng.randint(1, 4)
    L = rng.choice([1.0, 2.0])
    r0 = rng.choice([0.05, 0.08]) * L
    per = math.ceil(n ** (1.0 / 3))
    cell = L / per
    import itertools
    sites = list(itertools.product(range(per), repeat=3))
    rng.shuffle(sites)
    positions = []
    for site in sites[:n]:
        c = [(site[d] + 0.5) * cell + rng.uniform(-0.1, 0.1) * cell for d in range(3)]
        mol = []
        for a in range(k):
            mol.append([c[d] + (a - (k - 1) / 2) * r0 * (1.0 if d == a % 3 else 0.3) * rng.uniform(0.7, 1.1) for d in range(3)])
        positions.append(mol)
    sw = (rng.random() < 0.8) if switching is None else switching
    p = {"dim": 3, "L": L, "n": n, "k": k, "r0": r0, "k_bond": rng.choice([50.0, 200.0]) / r0 ** 2 * 0.01,
         "rep_prefactor": rng.choice([0.5, 5.0]) * (0.5 * cell) ** 6, "rep_power": 6, "switching": sw,
         "chain_time": rng.choice([0.31, 0.79, 0.11]), "switch_leaf": rng.choice([0.013, 0.05, 0.7, 0.23]),
         "switch_root": rng.choice([0.011, 0.069, 0.69, 0.17]), "sampling_interval": rng.choice([0.21, 0.57]),
         "end": 1e6, "scheduler": rng.choice(["heap_scheduler", "list_scheduler"]), "positions": positions,
         "initial_direction": rng.randrange(3), "initial_molecule": rng.randrange(n), "initial_atom": rng.randrange(k),
         "beta": rng.choice([1.0, 2.0])}
    # all periods pairwise incommensurate: two state-changing events must never carry bit-identical times (the order of tied
    # events is the scheduler's free choice and legitimately differs between two runs with different sets of pending events)
    p["chain_time"] *= 1 + math.pi * 1e-3
    p["switch_leaf"] *= 1 + math.e * 1e-3
    p["switch_root"] *= 1 + math.sqrt(2) * 1e-3
    p["sampling_interval"] *= 1 + math.sqrt(3) * 1e-3
    return {"kind": "molecules", "family": f"molecules{k}" + ("sw" if sw else ""), "params": p}


def jobs_for(ctx, props, n_generated, shipped_events, slow_events, gen_events, families=None, shipped=None, seeds=(0,)):
    jobs = []
    names = shipped if shipped is not None else list(scenario.SHIPPED)
    for name in names:
        for s in seeds:
            ev = slow_events if name in scenario.SLOW else shipped_events
            jobs.append({"spec": {"kind": "shipped", "name": name, "end": 1e6}, "props": list(props),
                         "seed": ctx.seed * 1000 + s, "max_events": ev, "label": name})
    if shipped is None:
        # heap scheduler with lazy-deletion counters preset just below 2^32: the overflow path (delete_events) runs mid-run
        for k, (name, ov) in enumerate([
                ("coulomb_atoms/power_bounded", {"SingleIndependentActivePeriodicDirectionEndOfChainEventHandler": {"chain_time": 0.05}}),
                ("dipoles/dipole_motion", {"SingleIndependentActivePeriodicDirectionEndOfChainEventHandler": {"chain_time": 0.11}}),
                ("water/coulomb_power_bounded_lj_inverted", None)]):
            spec = {"kind": "shipped", "name": name, "end": 1e6, "heap_counter_preset": 40 + 7 * k}
            if ov:
                spec["overrides"] = ov
            jobs.append({"spec": spec, "props": list(props), "seed": ctx.seed * 1000 + 900 + k, "max_events": shipped_events,
                         "label": name + "(counter preset)"})
        # directed regression scenarios: dense uniformly random starts of 14 spheres with an r^-12 repulsion, in which the
        # unclamped closed-form inversion returned a rounding-negative displacement within the first events
        for k, (sd, p) in enumerate([
                (0, {"dim": 2, "lengths": [0.9, 0.9], "beta": 2.0, "scheduler": "list_scheduler", "sampling_interval": 0.9137,
                     "chain_time": 1.9319, "end": 13.7, "initial_direction": 1, "speed": 0.5, "n": 14,
                     "potential": "inverse_power", "power": 12, "prefactor": 0.1, "initial_active": 12}),
                (5, {"dim": 3, "lengths": [1.3, 0.9, 1.0], "beta": 1.0, "scheduler": "list_scheduler", "sampling_interval": 0.37,
                     "chain_time": 0.3137, "end": 13.7, "initial_direction": 2, "speed": 1.0, "n": 14,
                     "potential": "inverse_power", "power": 12, "prefactor": 0.1, "initial_active": 8})]):
            jobs.append({"spec": {"kind": "spheres", "family": "soft_dense", "params": p}, "props": list(props), "seed": sd,
                         "max_events": gen_events or 1500, "label": f"gen-soft_dense-directed-{k}"})
        # the same code with DEBUG logging switched on (`-vv`): the logging branches consume the same objects the run uses
        for k, name in enumerate(["dipoles/dipole_motion", "coulomb_atoms/cell_veto", "water/coulomb_power_bounded_lj_inverted",
                                  "hard_disk_dipoles/hard_disk_dipoles_cells"]):
            jobs.append({"spec": {"kind": "shipped", "name": name, "end": 1e6, "debug_logging": True}, "props": list(props),
                         "seed": ctx.seed * 1000 + 950 + k, "max_events": max(200, shipped_events // 4),
                         "label": name + "(debug logging)"})
        # trash lists that name their first tag twice (legal; the tags after the repeated one must still be trashed)
        for k, name in enumerate(["coulomb_atoms/power_bounded", "dipoles/dipole_motion", "coulomb_atoms/cell_bounded"]):
            jobs.append({"spec": {"kind": "shipped", "name": name, "end": 1e6, "repeat_trash_tags": True}, "props": list(props),
                         "seed": ctx.seed * 1000 + 960 + k, "max_events": max(200, shipped_events // 2),
                         "label": name + "(repeated trash tag)"})
        # a deactivate list on the end-of-chain tagger class (no shipped file has one)
        for k, name in enumerate(["coulomb_atoms/power_bounded", "dipoles/dipole_factors_inside_first"]):
            jobs.append({"spec": {"kind": "shipped", "name": name, "end": 1e6, "eoc_deactivates_warmup_sampling": True},
                         "props": list(props), "seed": ctx.seed * 1000 + 980 + k, "max_events": max(200, shipped_events // 4),
                         "label": name + "(end of chain deactivates a tagger)"})
        # shipped configurations under the multi-process mediator
        for k, (name, cores) in enumerate([("dipoles/dipole_motion", 4), ("coulomb_atoms/cell_bounded", 3),
                                           ("water/coulomb_power_bounded_lj_inverted", 8)]):
            jobs.append({"spec": {"kind": "shipped", "name": name, "end": 1e6, "multi_process_cores": cores},
                         "props": list(props), "seed": ctx.seed * 1000 + 970 + k, "max_events": max(200, shipped_events // 4),
                         "label": name + f"(multi-process, {cores} cores)"})
    rng = core.rng_for(ctx.prop, ctx.seed, "gen")
    families = families or DEFAULT_FAMILIES
    for i in range(n_generated):
        fam = families[i % len(families)] if families else None
        spec = gen_molecule_spec(rng) if fam == "molecules" else gen_spec(rng, fam)
        label = f"gen-{spec['family']}-{i}"
        if spec["kind"] == "spheres" and i % 7 == 5 and not (spec["params"].get("cells") or {}).get("veto"):
            # the same monitors around the multi-process mediator (handlers in worker processes; the probe bus observes the
            # mediator's collaborators in the parent). Not with cell-veto handlers: their target cell crosses the pipe by value
            # and is then not a key of the parent's occupancy dictionary (KeyError at the first cell-veto commit; reproduced
            # with the shipped cell_veto.ini through jellyfysh.run; outside every property's quantifier, see DESIGN 9.3).
            # mediator's four collaborators in the parent, in-states where the mediator extracts them)
            spec["params"]["mediator"] = "multi_process_mediator"
            spec["params"]["cores"] = rng.choice([2, 3, 4, 8])
            label = f"gen-{spec['family']}-mp-{i}"
        jobs.append({"spec": spec, "props": list(props), "seed": ctx.seed * 1000 + i, "max_events": gen_events,
                     "label": label})
    return jobs


def run_suite(ctx, props, jobs, timeout=1500):
    ctx.run_workers("vf.monitors.runmon:run_one", jobs, timeout=timeout)
    ctx.extra["scenarios"] = sorted({j["label"].split("-")[0] if j["label"].startswith("gen") else j["label"] for j in jobs})
    for j in jobs[:2] + jobs[-3:]:
        ctx.sample({"label": j["label"], "seed": j["seed"], "max_events": j["max_events"], "spec": j["spec"]}, limit=8)
