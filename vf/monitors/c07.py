"""C07 - continuous motion, one chain, conservation: invariant at the commit point of every event of every scenario."""
from vf.monitors import suite

LEVEL = "exploration"
PROPS = ("C07",)
RULE = ("case = one instrumented run of the real mediator loop (19 shipped configurations, event-budgeted, plus generated "
        "systems: soft/LJ spheres 2-D/3-D cubic/cuboid with and without cell systems and cell-bounding potentials, hard disks "
        "with sequential-direction chains and cells; heap and list scheduler); at EVERY commit the full global state before "
        "and after is snapshot by value and judged; non-trivial = runs with >= 50 committed events; distinct = (scenario, "
        "seed, parameters)")


def required(ctx):
    ctx.require("commits_checked", 20000)
    ctx.require("unit_continuity_checks", 20000)
    ctx.require("commits_with_whole_composite_moving", 100)
    ctx.require("scenarios_run", 25)


def main(ctx, props=PROPS, rule=RULE, req=required):
    ctx.rule = rule
    ctx.assumptions = ["event time of a commit = the time the committing handler last pushed to the scheduler",
                       "congruence tolerance 1e-9*L (handlers and monitor evaluate the same expression; slack for the "
                       "deliberate snap onto cell boundaries); 'does not move' and time order are compared exactly",
                       "generated scenarios start from jittered lattices and keep chain legs below L/2-2r for hard cores "
                       "(the documented nearest-image limitation)"]
    n_gen, sh_ev, slow_ev, gen_ev = ctx.pick((24, 2500, 1500, 2500), (200, 60000, 20000, 20000))
    seeds = ctx.pick((0,), (0, 1, 2))
    jobs = suite.jobs_for(ctx, props, n_gen, sh_ev, slow_ev, gen_ev, seeds=seeds)
    suite.run_suite(ctx, props, jobs, timeout=ctx.pick(900, 3000))
    req(ctx)


def replay(acc, w):
    from vf.monitors import runmon
    x = w["witness"]
    runmon.run_one(acc, spec=x["scenario"], props=[w["property"]], seed=x["seed"],
                   max_events=(x.get("event_index") or 0) + 50)
