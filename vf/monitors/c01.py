"""C01 - sampled configurations follow the Boltzmann distribution of the configured model.

Offline statistical checker over samples recorded by a harness-side sampler attached at InputOutputHandler.write:
  * independent reference distributions (quadrature of exp(-beta U) for two soft spheres; factorised internal coordinates of
    a single water molecule; uniform annulus for a hard-disk dipole; own Ewald energy for two charges; shipped reference CDFs),
  * agreement between algorithmic variants of one model,
  * hard-core exclusion as a deterministic monitor at every sample.
Decision: batch-means z tests (|z| > 5 AND effect above a floor), confirmed by an independent replication with 4x samples."""
import bisect
import math
import os

from vf import core, probe
from vf.monitors import runmon, suite

LEVEL = "exploration"
NBINS = 12


# -- sampler (a probe-bus monitor) ---------------------------------------------------------------------------------------
class Sampler(object):
    def __init__(self, acc, kind, max_samples, params):
        self.acc, self.kind, self.max_samples, self.p = acc, kind, max_samples, params
        self.obs = {}
        self.n = 0

    def on_start(self, bus):
        self.L = runmon.lengths()

    def mi(self, a, b):
        out = []
        for d, L in enumerate(self.L):
            s = math.fmod(b[d] - a[d], L)
            if s >= L / 2:
                s -= L
            elif s < -L / 2:
                s += L
            out.append(s)
        return out

    def on_write(self, bus, name, args):
        if not args or not isinstance(args[0], list):
            return
        roots = args[0]
        self.n += 1
        o = self.obs
        leaves = [[c for c in (r.children or [r])] for r in roots]
        if self.kind == "pair":           # separation vector between the two point masses
            s = self.mi(leaves[0][0].value.position, leaves[1][0].value.position)
            o.setdefault("r", []).append(math.sqrt(sum(c * c for c in s)))
            for d in range(len(s)):
                o.setdefault(f"abs_s{d}", []).append(abs(s[d]))
        elif self.kind == "allpairs":     # several point masses: every pair separation
            pts = [lv[0].value.position for lv in leaves]
            for i in range(len(pts)):
                for j in range(i + 1, len(pts)):
                    s = self.mi(pts[i], pts[j])
                    o.setdefault("r", []).append(math.sqrt(sum(c * c for c in s)))
        elif self.kind == "dipoles":      # like the shipped separation output handler: by identifier distance
            for i in range(len(roots)):
                for j in range(i + 1, len(roots)):
                    for a in leaves[i]:
                        for b in leaves[j]:
                            dist = abs(a.value.identifier[-1] - b.value.identifier[-1])
                            s = self.mi(a.value.position, b.value.position)
                            o.setdefault(f"sep_{dist}", []).append(math.sqrt(sum(c * c for c in s)))
        elif self.kind == "water1":
            for r in roots:
                h1, ox, h2 = (c.value.position for c in r.children)
                v1, v2 = self.mi(ox, h1), self.mi(ox, h2)
                n1, n2 = (math.sqrt(sum(c * c for c in v)) for v in (v1, v2))
                o.setdefault("bond", []).append(n1)
                o.setdefault("bond", []).append(n2)
                o.setdefault("angle", []).append(math.acos(max(-1, min(1, sum(a * b for a, b in zip(v1, v2)) / n1 / n2))))
        elif self.kind == "water2":
            ox = [r.children[1].value.position for r in roots]
            s = self.mi(ox[0], ox[1])
            o.setdefault("oo", []).append(math.sqrt(sum(c * c for c in s)))
        elif self.kind == "hard_dipole":
            for r in roots:
                a, b = (c.value.position for c in r.children)
                s = self.mi(a, b)
                o.setdefault("bond", []).append(math.sqrt(sum(c * c for c in s)))
        # hard-core exclusion (deterministic, every sample)
        if self.p.get("hard_radius") or self.p.get("bond_range"):
            pts = [(c.value.identifier, c.value.position) for lv in leaves for c in lv]
            rr = self.p.get("hard_radius")
            for i in range(len(pts)):
                for j in range(i + 1, len(pts)):
                    s = self.mi(pts[i][1], pts[j][1])
                    dist = math.sqrt(sum(c * c for c in s))
                    same = pts[i][0][0] == pts[j][0][0] and len(pts[i][0]) > 1
                    self.acc.count("exclusion_pair_checks")
                    if same and self.p.get("bond_range"):
                        lo, hi = self.p["bond_range"]
                        if not (lo - 1e-12 <= dist <= hi + 1e-12):
                            self.acc.violation("C01:bond-outside-hard-range", f"[{bus.label}] sample {self.n}: bond "
                                               f"{pts[i][0]}-{pts[j][0]} has length {dist!r}, allowed [{lo}, {hi}]",
                                               {"scenario": bus.spec, "seed": bus.seed})
                    elif rr and not same and dist < 2 * rr - 1e-12:
                        self.acc.violation("C01:hard-cores-overlap", f"[{bus.label}] sample {self.n}: {pts[i][0]} and "
                                           f"{pts[j][0]} are {dist!r} apart, diameter {2 * rr}",
                                           {"scenario": bus.spec, "seed": bus.seed})
        if self.n >= self.max_samples:
            raise probe.StopProbe()


def chain(acc, spec=None, kind="pair", seed=0, max_samples=20000, budget_s=60, params=None, label=None):
    """Worker: run one chain and hand the recorded observables back."""
    import shutil
    label = label or spec.get("name", spec["kind"])
    workdir = os.path.join(core.WORK, f"c01-{os.getpid()}")
    sampler = Sampler(acc, kind, max_samples, params or {})
    try:
        bus = probe.run_scenario(acc, spec, lambda: [sampler], seed=seed, max_seconds=budget_s, workdir=workdir)
    finally:
        shutil.rmtree(workdir, ignore_errors=True)
    acc.payload = {"obs": sampler.obs, "events": bus.n_events, "label": label, "seed": seed}
    acc.count("chains_run")
    acc.count("samples_recorded", sampler.n)
    acc.count("events_total", bus.n_events)


# -- reference distributions (independent of the repository) ----------------------------------------------------------------
class TableCDF(object):
    def __init__(self, xs, cdf):
        self.xs, self.cdf = xs, cdf

    def __call__(self, x):
        i = bisect.bisect_right(self.xs, x)
        if i == 0:
            return 0.0
        if i >= len(self.xs):
            return 1.0
        x0, x1, c0, c1 = self.xs[i - 1], self.xs[i], self.cdf[i - 1], self.cdf[i]
        return c0 + (c1 - c0) * (x - x0) / (x1 - x0) if x1 > x0 else c1


def cdf_from_density_1d(f, lo, hi, n=20000):
    h = (hi - lo) / n
    xs, acc, c = [lo], 0.0, [0.0]
    for i in range(n):
        acc += f(lo + (i + 0.5) * h) * h
        xs.append(lo + (i + 1) * h)
        c.append(acc)
    return TableCDF(xs, [v / acc for v in c])


_SOFT_CACHE = {}


def soft_pair_reference(lengths, beta, k, p, n=None):
    key = (tuple(lengths), beta, k, p, n)
    if key not in _SOFT_CACHE:
        _SOFT_CACHE[key] = _soft_pair_reference(lengths, beta, k, p, n)
    return _SOFT_CACHE[key]


def _soft_pair_reference(lengths, beta, k, p, n=None):
    """Two spheres with U = k / r^p (minimum image): CDFs of r = |s| and of |s_d| under exp(-beta U) on the box."""
    dim = len(lengths)
    n = n or (90 if dim == 3 else 1200)
    h = [L / 2 / n for L in lengths]              # one orthant of the minimum-image cell (symmetry)
    rmax = math.sqrt(sum((L / 2) ** 2 for L in lengths))
    nb = 4000
    hist_r = [0.0] * (nb + 1)
    marg = [[0.0] * n for _ in range(dim)]      # marginal weight per grid cell along each axis
    import itertools
    axes = [[(i + 0.5) * h[d] for i in range(n)] for d in range(dim)]
    sq = [[x * x for x in ax] for ax in axes]
    for idx in itertools.product(range(n), repeat=dim):
        r2 = sum(sq[d][idx[d]] for d in range(dim))
        r = math.sqrt(r2)
        w = math.exp(-beta * k / r ** p)
        hist_r[min(nb, int(r / rmax * nb))] += w
        for d in range(dim):
            marg[d][idx[d]] += w

    def table(hist, top):
        tot = sum(hist)
        xs, c, a = [0.0], [0.0], 0.0
        for i, v in enumerate(hist):
            a += v
            xs.append((i + 1) * top / nb)
            c.append(a / tot)
        return TableCDF(xs, c)
    ref = {"r": table(hist_r, rmax)}
    for d in range(dim):
        # CDF tabulated at the cell EDGES and interpolated linearly (piecewise-uniform density inside a cell): O(h^2) error;
        # a histogram of the n midpoints would be a staircase with steps of 1/n ~ 1 %, i.e. of the order of the effect floor
        tot = sum(marg[d])
        xs, c, a = [0.0], [0.0], 0.0
        for i, v in enumerate(marg[d]):
            a += v
            xs.append((i + 1) * h[d])
            c.append(a / tot)
        ref[f"abs_s{d}"] = TableCDF(xs, c)
    return ref


def coulomb_pair_reference(L, beta, n=20):
    """Two unit charges in a periodic cube: p(s) ~ exp(-beta U_ewald(s)); CDF of r from the wedge 0<=x<=y<=z<=L/2."""
    from vf.oracles.ewald import Ewald
    e = Ewald(L, alpha=2.2, nreal=3, kmax=6)
    h = L / 2 / n
    rmax = math.sqrt(3) * L / 2
    nb = 2000
    hist = [0.0] * (nb + 1)
    for i in range(n):
        x = (i + 0.5) * h
        for j in range(i, n):
            y = (j + 0.5) * h
            for k in range(j, n):
                z = (k + 0.5) * h
                mult = 6 if i < j < k else (3 if (i == j) != (j == k) else 1)
                w = mult * math.exp(-beta * e.energy((x, y, z)))
                r = math.sqrt(x * x + y * y + z * z)
                hist[min(nb, int(r / rmax * nb))] += w
    tot = sum(hist)
    xs, c, a = [0.0], [0.0], 0.0
    for i, v in enumerate(hist):
        a += v
        xs.append((i + 1) * rmax / nb)
        c.append(a / tot)
    return TableCDF(xs, c)


def shipped_cdf(rel):
    xs, c = [], []
    with open(os.path.join(core.REPO, "jellyfysh", "output", rel)) as f:
        for ln in f:
            if ln.strip() and not ln.startswith("#"):
                a, b = ln.split()[:2]
                xs.append(float(a))
                c.append(float(b))
    if c and c[-1] > 0:
        c = [v / c[-1] for v in c]
    return TableCDF(xs, c)


# -- the decision statistic -----------------------------------------------------------------------------------------------
def batch_stats(us, nbatch=32, burn=0.1):
    """Per-bin occupation and first moment with batch-means standard errors; None if too short."""
    us = us[int(len(us) * burn):]
    m = len(us) // nbatch
    if m < 50:
        return None
    stats = []
    for k in range(NBINS + 1):
        means = []
        for b in range(nbatch):
            chunk = us[b * m:(b + 1) * m]
            if k < NBINS:
                means.append(sum(1 for u in chunk if k / NBINS <= u < (k + 1) / NBINS or (k == NBINS - 1 and u >= 1.0)) / m)
            else:
                means.append(sum(chunk) / m)
        mu = sum(means) / nbatch
        var = sum((x - mu) ** 2 for x in means) / (nbatch - 1)
        se = math.sqrt(var / nbatch)
        # correlation beyond one batch length (slowly mixing separations of two molecules in a large box) makes the batch
        # means dependent and this standard error too small: the same estimate from 4 times longer batches is taken if larger
        nb4 = nbatch // 4
        if nb4 >= 6:
            means4 = [sum(means[4 * j:4 * j + 4]) / 4 for j in range(nb4)]
            mu4 = sum(means4) / nb4
            se = max(se, math.sqrt(sum((x - mu4) ** 2 for x in means4) / (nb4 - 1) / nb4))
        stats.append((mu, se))
    return stats


def with_chain_errors(st, chains_u, burn=0.1):
    """Independent chains are the honest yardstick for slowly mixing observables (two water molecules binding and
    unbinding a few times per chain): the spread of the per-chain means, if there are at least 3 chains, replaces the
    batch-means error wherever it is larger."""
    if st is None or len(chains_u) < 3:
        return st
    per = []
    for us in chains_u:
        us = us[int(len(us) * burn):]
        if len(us) < 200:
            continue
        row = [sum(1 for u in us if k / NBINS <= u < (k + 1) / NBINS or (k == NBINS - 1 and u >= 1.0)) / len(us)
               for k in range(NBINS)]
        row.append(sum(us) / len(us))
        per.append(row)
    if len(per) < 3:
        return st
    out = []
    for k, (mu, se) in enumerate(st):
        col = [r[k] for r in per]
        m = sum(col) / len(col)
        se_c = math.sqrt(sum((x - m) ** 2 for x in col) / (len(col) - 1) / len(col))
        out.append((mu, max(se, se_c)))
    return out


EXPECT = [1.0 / NBINS] * NBINS + [0.5]
FLOOR = [0.10 / NBINS] * NBINS + [0.01]      # absolute effect floors: 10 % of a bin's mass, 0.01 in the mean of F(x)


def deviations(stats, ref_stats=None, zcut=5.0):
    """List of (index, z, effect) exceeding both the z cut and the effect floor."""
    out = []
    for i, (mu, se) in enumerate(stats):
        if ref_stats is None:
            exp, se2 = EXPECT[i], 0.0
        else:
            exp, se2 = ref_stats[i]
        s = math.sqrt(se * se + se2 * se2)
        eff = mu - exp
        z = eff / s if s > 0 else (math.inf if eff else 0.0)
        if abs(z) > zcut and abs(eff) > FLOOR[i]:
            out.append((i, z, eff))
    return out


# -- test plan --------------------------------------------------------------------------------------------------------------
def plan(ctx):
    """Returns list of groups: dict(name, kind, variants: {variant: spec}, refs: {obs: callable -> CDF}, params)."""
    q = ctx.quick
    groups = []
    # two soft spheres (harness-built): steep repulsion, chain legs far below L/2 so that the nearest-image approximation of
    # the pair handler is exact to < 1e-4
    for dim, lengths, sched in ((3, [1.0, 1.0, 1.0], "heap_scheduler"), (3, [1.0, 1.0, 1.0], "list_scheduler"),
                                (2, [1.0, 1.3], "heap_scheduler")):
        k, p, beta = (0.22 * min(lengths)) ** 12, 12, 1.0
        spec = {"kind": "spheres", "family": "soft2", "params": {
            "dim": dim, "lengths": lengths, "n": 2, "potential": "inverse_power", "power": p, "prefactor": k, "beta": beta,
            "scheduler": sched, "sampling_interval": 0.31, "chain_time": 0.173, "end": 1e9,
            "positions": [[0.1] * dim, [0.6] * dim]}}
        groups.append({"name": f"soft_pair_{dim}d_{sched.split('_')[0]}", "kind": "pair", "variants": {"only": spec},
                       "refs": {o: (lambda o=o, lengths=lengths, beta=beta, k=k, p=p: soft_pair_reference(lengths, beta, k, p)[o])
                                for o in ["r"] + [f"abs_s{d}" for d in range(dim)]},
                       "ref_builder": ("soft", lengths, beta, k, p), "params": {}})
    # single water molecule: internal coordinates factorise
    beta, kb, r0, kphi, phi0 = 1.679, 529.581, 1.012, 75.9, 1.9764
    groups.append({"name": "single_water", "kind": "water1",
                   "variants": {"only": {"kind": "shipped", "name": "water/single_molecule", "end": 1e9,
                                         "overrides": {"FixedIntervalSamplingEventHandler": {"sampling_interval": 0.43}}},
                                # a tuning parameter that leaves the model unchanged: look-ahead window of the piecewise
                                # constant bound five times shorter, bound offset smaller (most stops are window ends)
                                "short_window": {"kind": "shipped", "name": "water/single_molecule", "end": 1e9,
                                                 "overrides": {"FixedIntervalSamplingEventHandler": {"sampling_interval": 0.43},
                                                               "BendingEventHandler": {"max_displacement": 0.02}}}},
                   "refs": {"bond": lambda: cdf_from_density_1d(lambda r: r * r * math.exp(-beta * kb * (r - r0) ** 2), 0.8, 1.25),
                            "angle": lambda: cdf_from_density_1d(lambda f: math.sin(f) * math.exp(-beta * kphi / 2 * (f - phi0) ** 2),
                                                                 1.2, 2.8)},
                   "params": {}})
    # single hard-disk dipole: separation uniform on the annulus
    rmin, rmax = 0.6666666666666666, 1.333333333333333
    groups.append({"name": "single_hard_disk_dipole", "kind": "hard_dipole",
                   "variants": {"only": {"kind": "shipped", "name": "hard_disk_dipoles/single_hard_disk_dipole", "end": 1e9,
                                         "overrides": {"PolarizationSamplingEventHandler": {"sampling_interval": 0.731}}}},
                   "refs": {"bond": lambda: TableCDF([rmin + (rmax - rmin) * i / 2000 for i in range(2001)],
                                                     [((rmin + (rmax - rmin) * i / 2000) ** 2 - rmin ** 2) / (rmax ** 2 - rmin ** 2)
                                                      for i in range(2001)])},
                   "params": {"bond_range": [rmin, rmax]}})
    # two charges: own Ewald Boltzmann reference + shipped reference; variants must agree
    cv = {"power_bounded": {"kind": "shipped", "name": "coulomb_atoms/power_bounded", "end": 1e9},
          "cell_bounded": {"kind": "shipped", "name": "coulomb_atoms/cell_bounded", "end": 1e9}}
    if not q:
        cv["cell_veto"] = {"kind": "shipped", "name": "coulomb_atoms/cell_veto", "end": 1e9}
    groups.append({"name": "coulomb_atoms", "kind": "pair", "variants": cv,
                   "refs": {"r": lambda: coulomb_pair_reference(1.0, 2.0)},
                   "shipped_refs": {"r": "2018_JCP_149_064113/coulomb_atoms/ReferenceDataCoulombAtoms.dat"}, "params": {}})
    # four like charges at stronger coupling: several far targets at once (cell-bounded handlers are deep-copied per target)
    four = {"HypercubicSetting": {"beta": 6}, "RandomInputHandler": {"number_of_root_nodes": 4}}
    c4 = {"power_bounded": {"kind": "shipped", "name": "coulomb_atoms/power_bounded", "end": 1e9,
                            "overrides": dict(four, Coulomb={"number_event_handlers": 3})},
          "cell_bounded": {"kind": "shipped", "name": "coulomb_atoms/cell_bounded", "end": 1e9,
                           "overrides": dict(four, CoulombCellBounding={"number_event_handlers": 3},
                                             CoulombNearby={"number_event_handlers": 3},
                                             CoulombSurplus={"number_event_handlers": 3})}}
    if not q:
        c4["cell_veto"] = {"kind": "shipped", "name": "coulomb_atoms/cell_veto", "end": 1e9,
                           "overrides": dict(four, CoulombNearby={"number_event_handlers": 3},
                                             CoulombSurplus={"number_event_handlers": 3})}
    groups.append({"name": "coulomb_atoms_4", "kind": "allpairs", "variants": c4, "refs": {}, "params": {}})
    # dipoles: shipped reference CDFs + agreement of the variants
    dv = {n: {"kind": "shipped", "name": f"dipoles/{n}", "end": 1e9,
              "overrides": {"FixedIntervalSamplingEventHandler": {"sampling_interval": 0.11}}}
          for n in (["atom_factors", "dipole_factors_inside_first", "dipole_factors_ratio", "dipole_motion"] if q else
                    ["atom_factors", "dipole_factors_inside_first", "dipole_factors_outside_first", "dipole_factors_ratio",
                     "dipole_motion", "cell_bounded", "cell_veto"])}
    groups.append({"name": "dipoles", "kind": "dipoles", "variants": dv, "refs": {},
                   "shipped_refs": {"sep_0": "2018_JCP_149_064113/dipoles/ReferenceDataDipoles_13.dat",
                                    "sep_1": "2018_JCP_149_064113/dipoles/ReferenceDataDipoles_14.dat"}, "params": {}})
    if not q:
        wv = {n: {"kind": "shipped", "name": f"water/{n}", "end": 1e9,
                  "overrides": {"FixedIntervalSamplingEventHandler": {"sampling_interval": 0.53}}}
              for n in ("coulomb_power_bounded_lj_inverted", "coulomb_power_bounded_lj_cell_bounded",
                        "coulomb_cell_veto_lj_inverted", "coulomb_cell_veto_lj_cell_veto")}
        groups.append({"name": "water_pair", "kind": "water2", "variants": wv, "refs": {},
                       "shipped_refs": {"oo": "2018_JCP_149_064113/water/ReferenceOOSeparation.dat"}, "params": {}})
        groups.append({"name": "hard_disk_dipoles_81", "kind": "hard_dipole",
                       "variants": {"plain": {"kind": "shipped", "name": "hard_disk_dipoles/hard_disk_dipoles", "end": 1e9,
                                              "overrides": {"PolarizationSamplingEventHandler": {"sampling_interval": 0.97}}},
                                    "cells": {"kind": "shipped", "name": "hard_disk_dipoles/hard_disk_dipoles_cells", "end": 1e9,
                                              "overrides": {"PolarizationSamplingEventHandler": {"sampling_interval": 0.97}}}},
                       "refs": {}, "params": {"hard_radius": 0.476190476190476, "bond_range": [0.952380952380952, 1.047619047619048]}})
    return groups


def run_chains(ctx, jobs, timeout):
    res = ctx.run_workers("vf.monitors.c01:chain", jobs, timeout=timeout, merge=True)
    out = {}
    for j, r in zip(jobs, res):
        if r and r.get("payload"):
            out[(j["group"], j["variant"], j["seed"])] = r["payload"]["obs"]
    return out


def analyse(ctx, groups, data, stage, zcut=5.0, all_bins=False):
    """Returns list of flagged findings: (group, variant, obs, description, kind)."""
    flagged = []
    refs_cache = {}
    for g in groups:
        per_variant = {}
        for v in g["variants"]:
            chains = [o for (gn, vn, s), o in data.items() if gn == g["name"] and vn == v]
            if not chains:
                continue
            pooled = {}
            for o in chains:
                for k, xs in o.items():
                    pooled.setdefault(k, []).append(xs)
            per_variant[v] = pooled
        # against independent references (each chain separately: correlation only within a chain)
        for obs_name, builder in list(g.get("refs", {}).items()) + [(k, ("shipped", rel)) for k, rel in
                                                                     g.get("shipped_refs", {}).items()]:
            key = (g["name"], obs_name, "shipped" if isinstance(builder, tuple) else "own")
            if key not in refs_cache:
                refs_cache[key] = shipped_cdf(builder[1]) if isinstance(builder, tuple) else builder()
            F = refs_cache[key]
            shipped = isinstance(builder, tuple)
            for v, pooled in per_variant.items():
                # the chains of one variant are pooled (concatenated; 32 batches over all of them): more power, fewer tests
                chains_x = pooled.get(obs_name, [])
                for xs in ([[x for c in chains_x for x in c]] if chains_x else []):
                    st = with_chain_errors(batch_stats([F(x) for x in xs]), [[F(x) for x in c] for c in chains_x])
                    if st is None:
                        ctx.count("chains_too_short")
                        continue
                    ctx.count("observable_tests")
                    ctx.count("observable_tests_against_shipped_reference" if shipped else
                              "observable_tests_against_independent_reference")
                    ctx.maxi("max_abs_z_seen", max(abs((mu - EXPECT[i]) / se) if se > 0 else 0.0 for i, (mu, se) in enumerate(st)))
                    dev = deviations(st, zcut=zcut)
                    for i, z, eff in (dev if all_bins else ([max(dev, key=lambda t: abs(t[1]))] if dev else [])):
                        what = (f"{g['name']}/{v}: observable {obs_name} deviates from the "
                                f"{'shipped reference CDF' if shipped else 'independently computed Boltzmann distribution'}: "
                                f"{'bin %d of %d' % (i, NBINS) if i < NBINS else 'mean of F(x)'} is {st[i][0]:.4f} +- "
                                f"{st[i][1]:.4f}, expected {EXPECT[i]:.4f} (z = {z:.1f})")
                        flagged.append((g["name"], v, obs_name, what, "reference", math.copysign(1, eff), i))
        # agreement between variants (on the reference's own scale if there is one, else on a pooled empirical scale)
        names = sorted(per_variant)
        if len(names) > 1:
            for obs_name in sorted(set().union(*[set(p) for p in per_variant.values()])):
                keyF = next((refs_cache[k] for k in refs_cache if k[0] == g["name"] and k[1] == obs_name), None)
                if keyF is None:
                    allx = sorted(x for v in names for xs in per_variant[v].get(obs_name, []) for x in xs[::7])
                    if len(allx) < 1000:
                        continue
                    keyF = TableCDF(allx, [i / (len(allx) - 1) for i in range(len(allx))])
                sts = {}
                for v in names:
                    xs = [x for c in per_variant[v].get(obs_name, []) for x in c]
                    # concatenated chains: batches never straddle much (32 batches over k chains)
                    sts[v] = with_chain_errors(batch_stats([keyF(x) for x in xs], nbatch=32),
                                               [[keyF(x) for x in c] for c in per_variant[v].get(obs_name, [])])
                for a in range(len(names)):
                    for b in range(a + 1, len(names)):
                        if sts[names[a]] is None or sts[names[b]] is None:
                            continue
                        ctx.count("variant_pair_tests")
                        dev = deviations(sts[names[a]], sts[names[b]], zcut=zcut)
                        for i, z, eff in (dev if all_bins else ([max(dev, key=lambda t: abs(t[1]))] if dev else [])):
                            what = (f"{g['name']}: variants {names[a]} and {names[b]} disagree on observable {obs_name}: "
                                    f"{'bin %d' % i if i < NBINS else 'mean'} {sts[names[a]][i][0]:.4f} vs "
                                    f"{sts[names[b]][i][0]:.4f} (z = {z:.1f})")
                            flagged.append((g["name"], f"{names[a]}|{names[b]}", obs_name, what, "variants",
                                            math.copysign(1, eff), i))
    return flagged


def main(ctx):
    ctx.rule = ("case = one Markov chain (scenario variant, seed): real runs with a harness-side sampler at "
                "InputOutputHandler.write recording pair separations / bond lengths / angles; each observable is mapped through a "
                "reference CDF (independent quadrature of exp(-beta U): two soft spheres 3-D heap+list and 2-D cuboid, single "
                "water molecule in internal coordinates, uniform annulus of a hard-disk dipole, own Ewald energy for two charges; "
                "shipped reference CDFs for charges, dipoles, water) and tested by batch means (32 batches, 12 quantile bins + "
                "first moment); all variants of one model are compared pairwise; hard cores are checked at every sample; a "
                "deviation counts only if |z| > 5 AND the effect exceeds 10 % of a bin's mass (0.01 for the moment) AND it "
                "reappears with the same sign in an independent replication with 4x the samples; distinct = chains")
    ctx.assumptions = ["convergence is a limit statement: the check decides 'no deviation above the effect floor at |z|>5 on these "
                       "observables'", "soft-sphere parameters keep U(L/2) below 1e-4 kT so that the pair handler's "
                       "nearest-image-at-leg-start treatment equals the minimum-image model within the floor",
                       "shipped reference CDFs are empirical (unknown sample size): same floors apply"]
    groups = plan(ctx)
    nchain = ctx.pick(2, 6)
    nsamp, budget = ctx.pick((40000, 45), (400000, 240))
    jobs = []
    for g in groups:
        for v, spec in g["variants"].items():
            for s in range(nchain + (1 if len(g["variants"]) > 1 else 0)):
                jobs.append({"spec": spec, "kind": g["kind"], "seed": ctx.seed * 1000 + s, "max_samples": nsamp,
                             "budget_s": budget, "params": g["params"], "label": f"{g['name']}/{v}", "group": g["name"],
                             "variant": v})
    wjobs = [{k: v for k, v in j.items() if k not in ("group", "variant")} for j in jobs]
    res = ctx.run_workers("vf.monitors.c01:chain", wjobs, timeout=budget * 4 + 300)
    data = {}
    for j, r in zip(jobs, res):
        if r and r.get("payload"):
            data[(j["group"], j["variant"], j["seed"])] = r["payload"]["obs"]
            ctx.case((j["group"], j["variant"], j["seed"]), nontrivial=True)
    flagged = analyse(ctx, groups, data, 1)
    ctx.counters["first_stage_flags"] = len(flagged)
    for s in flagged[:5]:
        ctx.notes.append("first-stage flag (needs replication): " + s[3])
    if flagged:
        # replication: independent seeds, 4x the samples, only the groups concerned
        gnames = {f[0] for f in flagged}
        jobs2 = []
        for g in groups:
            if g["name"] not in gnames:
                continue
            for v, spec in g["variants"].items():
                for s in range(nchain):
                    jobs2.append({"spec": spec, "kind": g["kind"], "seed": ctx.seed * 1000 + 500 + s, "max_samples": 4 * nsamp,
                                  "budget_s": 4 * budget, "params": g["params"], "label": f"{g['name']}/{v}",
                                  "group": g["name"], "variant": v})
        w2 = [{k: v for k, v in j.items() if k not in ("group", "variant")} for j in jobs2]
        res2 = ctx.run_workers("vf.monitors.c01:chain", w2, timeout=budget * 16 + 300)
        data2 = {}
        for j, r in zip(jobs2, res2):
            if r and r.get("payload"):
                data2[(j["group"], j["variant"], j["seed"])] = r["payload"]["obs"]
        # the replication tests ONE pre-registered hypothesis per flag: the same observable deviates in the same bin with the
        # same sign (z > 3.5 with 4x the samples); a fluctuation of a slowly mixing chain does not come back in the same bin
        flagged2 = analyse(ctx, [g for g in groups if g["name"] in gnames], data2, 2, zcut=3.5, all_bins=True)
        ctx.counters["replications_run"] = len(jobs2)
        for f in flagged:
            again = [f2 for f2 in flagged2 if f2[:3] == f[:3] and f2[4] == f[4] and f2[5] == f[5] and f2[6] == f[6]]
            if again:
                key = "C01:distribution-differs-from-reference" if f[4] == "reference" else "C01:variants-disagree"
                ctx.violation(key, f[3] + "  [confirmed by replication: " + again[0][3] + "]",
                              {"group": f[0], "variant": f[1], "observable": f[2]})
            else:
                ctx.count("first_stage_flags_not_replicated")
    for g in groups[:3]:
        ctx.sample({"group": g["name"], "variants": list(g["variants"]), "kind": g["kind"]}, limit=8)
    ctx.require("chains_run", 10)
    ctx.require("observable_tests_against_independent_reference", 10)
    ctx.require("variant_pair_tests", 4)
    ctx.require("samples_recorded", 50000)


def replay(acc, w):
    acc.notes.append("statistical witnesses are replayed by re-running the check with the recorded VERIF_SEED")
