"""C05 - lifting schemes keep the flow balanced. Contract sweep that integrates over the uniform draw."""
import math
import random

from vf import core, gen
from vf.measure import measure_1d

LEVEL = "exploration"
SCHEMES = ("InsideFirstLifting", "OutsideFirstLifting", "RatioLifting")


def _cls(name):
    import importlib
    mod = {"InsideFirstLifting": "inside_first_lifting", "OutsideFirstLifting": "outside_first_lifting",
           "RatioLifting": "ratio_lifting"}[name]
    return getattr(importlib.import_module(f"jellyfysh.lifting.{mod}"), name)


class Scripted:
    """random.uniform(a, b) -> a + (b - a) * u_i for the i-th draw; counts draws."""

    def __init__(self, us):
        self.us, self.i = us, 0

    def __call__(self, a, b):
        u = self.us[min(self.i, len(self.us) - 1)]
        self.i += 1
        return a + (b - a) * u


def select(lifting, table, active, us):
    """Run the real scheme on the table (list of (identifier, derivative)) with `active` the active index."""
    lifting.reset()
    s = Scripted(us)
    old = random.uniform
    random.uniform = s
    try:
        for i, (ident, q) in enumerate(table):
            lifting.insert(q, ident, i == active)
        return lifting.get_active_identifier(), s.i
    finally:
        random.uniform = old


def measure(lifting, table, active, u_first, hints):
    """Lebesgue measure of {u in [0,1): scheme selects k} for every k, from the code's own answers.
    If the scheme draws twice, the first draw is fixed to u_first and the last draw is integrated."""
    _, ndraws = select(lifting, table, active, (0.5, 0.5))

    def f(u):
        us = (u,) if ndraws == 1 else (u_first,) * (ndraws - 1) + (u,)
        return select(lifting, table, active, us)[0]

    meas, answers, ends, n = measure_1d(f, hints)
    return meas, answers, ends, ndraws, n


def hints_for(table, active):
    qa = table[active][1]
    negs = [-q for _, q in table if q <= 0]
    S = sum(negs)
    off = sum(q for i, (_, q) in enumerate(table) if q > 0 and i < active)
    hs = []
    c = 0.0
    for r in negs:
        c += r
        hs += [(c - off) / qa, (S - c - off) / qa, (S - (c - r) - off) / qa, c / S if S else 0.0]
    return [h for h in hs if 0 <= h < 1]


def gen_table(rng):
    n = rng.randint(2, 12)
    style = rng.choice(["gauss", "zeros", "cancel", "spread", "dominant", "small_int"])
    vals = []
    for _ in range(n - 1):
        if style == "gauss":
            v = rng.gauss(0, 1)
        elif style == "zeros":
            v = rng.choice([0.0, 0.0, rng.gauss(0, 1), -0.0])
        elif style == "cancel":
            b = rng.choice([1.0, 0.3, 2.5])
            v = rng.choice([b, -b, b * (1 + 2.0 ** -52), -b * (1 + 2.0 ** -52), rng.gauss(0, 1)])
        elif style == "spread":
            v = rng.choice([-1, 1]) * 10 ** rng.uniform(-6, 6)
        elif style == "dominant":
            v = rng.gauss(0, 1e-3)
        else:
            v = float(rng.randint(-3, 3))
        vals.append(v)
    if style == "dominant":
        vals[0] = rng.choice([-1, 1]) * 100.0
    vals.append(-sum(vals))
    if rng.random() < 0.3:  # exact power-of-two rescaling: tiny and huge tables (the schemes must be scale free)
        sc = 2.0 ** rng.choice([-200, -120, -60, -45, -36, -20, 20, 60, 200])
        vals = [v * sc for v in vals]
        style += "*2^k"
    rng.shuffle(vals)
    if not any(v > 0 for v in vals):
        return gen_table(rng)
    return [((i,), v) for i, v in enumerate(vals)], style


def check_table(acc, scheme, table, style="replay"):
    lifting = _cls(scheme)()
    q = dict(table)
    tot = sum(abs(v) for _, v in table)
    positives = [i for i, (_, v) in enumerate(table) if v > 0]
    inflow = {}
    wit = {"scheme": scheme, "table": [[list(k), v.hex()] for k, v in table], "values": [v for _, v in table]}
    for a in positives:
        qa = table[a][1]
        hs = hints_for(table, a)
        results = []
        for u1 in (0.5, 0.13, 0.87):
            meas, answers, ends, ndraws, nev = measure(lifting, table, a, u1, hs)
            results.append(meas)
            acc.count("active_units_integrated")
            acc.count("selections_evaluated", nev)
            for k in answers:
                if not q[k] < 0:
                    m = meas.get(k, 0.0)
                    if q[k] == 0 and m < 1e-12:
                        key = "C05:zero-rate-selected-at-endpoint"
                    elif q[k] == 0:
                        key = "C05:zero-rate-selected"
                    else:
                        key = "C05:nonnegative-derivative-selected"
                    where = [e for e, v in ends.items() if v == k]
                    acc.violation(key, f"{scheme}: table {[v for _, v in table]} active {a}: selected unit {k} with "
                                       f"derivative {q[k]!r} (measure {m:.3e}, at {where})", dict(wit, active=a))
            if ndraws == 1:
                break
        if len(results) > 1:
            keys = set().union(*results)
            dep = max(abs(results[0].get(k, 0) - r.get(k, 0)) for r in results[1:] for k in keys)
            if dep > 1e-9:
                acc.violation("C05:depends-on-more-than-table-and-deciding-draw",
                              f"{scheme}: selection measure changes by {dep:.3e} with the first draw", dict(wit, active=a))
        meas = results[0]
        if abs(sum(meas.values()) - 1.0) > 1e-9:
            acc.notes.append(f"measure does not sum to one: {sum(meas.values())}")
            acc.count("measure_not_normalised")
        for k, m in meas.items():
            inflow[k] = inflow.get(k, 0.0) + qa * m
        # determinism + label independence at a few u
        for u in (0.0, 0.3141592653589793, 0.77, 1 - 2.0 ** -53):
            r1 = select(lifting, table, a, (u,))[0]
            r2 = select(_cls(scheme)(), table, a, (u,))[0]
            ren = [(("x",) + k, v) for k, v in table]
            r3 = select(lifting, ren, a, (u,))[0]
            acc.count("determinism_checks")
            if r1 != r2 or r3 != ("x",) + r1:
                acc.violation("C05:not-a-function-of-table-and-draw", f"{scheme}: u={u!r} active {a}: {r1} / {r2} / {r3}",
                              dict(wit, active=a, u=u))
    bad = []
    for k, v in table:
        want = -v if v < 0 else 0.0
        if abs(inflow.get(k, 0.0) - want) > 1e-9 * tot:
            bad.append((k, inflow.get(k, 0.0), want))
    acc.count("tables_balanced_checked")
    acc.count(f"tables_{scheme}")
    if len(positives) >= 2:
        acc.count("tables_with_several_positive_units")
    if any(v == 0 for _, v in table):
        acc.count("tables_with_zero_entries")
    if bad:
        acc.violation("C05:flow-imbalance", f"{scheme}: table {[v for _, v in table]}: inflow of unit {bad[0][0]} is "
                                            f"{bad[0][1]!r}, should be {bad[0][2]!r}", wit)


def shard(acc, prop="C05", seed=0, shard=0, n=50):
    rng = core.rng_for(prop, seed, "shard", shard)
    directed = [[((0,), 0.0), ((1,), 1.0), ((2,), -1.0)], [((0,), 1.0), ((1,), 0.0), ((2,), -1.0)],
                [((0,), 1.0), ((1,), -1.0), ((2,), 0.0)], [((0,), 0.1), ((1,), 0.2), ((2,), -0.30000000000000004), ((3,), 0.0)],
                [((0,), 2.0), ((1,), 1.0), ((2,), -0.5), ((3,), -2.5)]]
    for i in range(n):
        if shard == 0 and i < len(directed):
            table, style = directed[i], "directed"
        else:
            table, style = gen_table(rng)
        for scheme in SCHEMES:
            acc.case((scheme, tuple(v for _, v in table)), nontrivial=len(table) > 2)
            check_table(acc, scheme, table, style)
        if shard == 0 and i in (4, 5, 6):
            acc.sample({"table": [v for _, v in table], "style": style, "schemes": list(SCHEMES)})


def main(ctx):
    nshards = ctx.pick(16, 64)
    n = ctx.pick(600, 4000)
    ctx.rule = ("case = (scheme, derivative table); tables of 2..12 entries summing to zero to rounding (gaussian, exact "
                "zeros, near-cancelling pairs, magnitudes over 1e12, one dominant entry, small integers), shuffled "
                "insertion order; for EVERY unit with positive derivative taken as the active one the selection is "
                "integrated over the scripted uniform draw (257-point grid + predicted breakpoints +-1e-13 + end points "
                "0, 2^-53, 1-2^-53, bisection between differing neighbours) and the balance equation "
                "sum_a q_a+ P(k|a) = |q_k-| is checked to 1e-9*sum|q|; non-trivial = tables with more than 2 entries")
    ctx.assumptions = ["the schemes draw through random.uniform (scripted by the harness); the measure is that of the "
                       "code's own answers, predicted breakpoints only place probes"]
    jobs = [{"seed": ctx.seed, "shard": s, "n": n} for s in range(nshards)]
    ctx.run_workers("vf.monitors.c05:shard", jobs)
    # in real runs: every selection made by a lifting scheme goes to a unit with a strictly negative recorded derivative
    from vf.monitors import suite
    names = ["dipoles/dipole_factors_inside_first", "dipoles/dipole_factors_outside_first", "dipoles/dipole_factors_ratio",
             "dipoles/dipole_motion", "water/coulomb_power_bounded_lj_inverted", "water/single_molecule"]
    if not ctx.quick:
        names += ["dipoles/cell_bounded", "dipoles/cell_veto", "water/coulomb_power_bounded_lj_cell_bounded"]
    rj = suite.jobs_for(ctx, ("C05",), 0, ctx.pick(4000, 60000), ctx.pick(2000, 20000), 0, shipped=names, seeds=ctx.pick((0,), (0, 1)))
    suite.run_suite(ctx, ("C05",), rj, timeout=ctx.pick(900, 3000))
    ctx.require("in_run_lifting_selections", 500)
    ctx.require("tables_balanced_checked", 1000)
    ctx.require("tables_with_several_positive_units", 300)
    ctx.require("tables_with_zero_entries", 100)
    ctx.require("active_units_integrated", 2000)


def replay(acc, w):
    x = w["witness"]
    table = [(tuple(k), float.fromhex(v)) for k, v in x["table"]]
    check_table(acc, x["scheme"], table)
