"""C05 - lifting schemes keep the flow balanced. Contract sweep that integrates over the uniform draw."""
import math
import random

from vf import core, gen
from vf.measure import measure_1d

LEVEL = "exploration"
SCHEMES = ("InsideFirstLifting", "OutsideFirstLifting", "RatioLifting")


def _cls(name):
    import importlib
    mod = {"InsideFirstLifting": "inside_first_lifting", "OutsideFirstLifting": "outside_first_lifting",
           "RatioLifting": "ratio_lifting"}[name]
    return getattr(importlib.import_module(f"jellyfysh.lifting.{mod}"), name)


class Scripted:
    """random.uniform(a, b) -> a + (b - a) * u_i for the i-th draw; counts draws."""

    def __init__(self, us):
        self.us, self.i = us, 0

    def __call__(self, a, b):
        u = self.us[min(self.i, len(self.us) - 1)]
        self.i += 1
        return a + (b - a) * u


def select(lifting, table, active, us):
    """Run the real scheme on the table (list of (identifier, derivative)) with `active` the active index."""
    lifting.reset()
    s = Scripted(us)
    old = random.uniform
    random.uniform = s
    try:
        for i, (ident, q) in enumerate(table):
            lifting.insert(q, ident, i == active)
        return lifting.get_active_identifier(), s.i
    finally:
        random.uniform = old


def measure(lifting, table, active, u_first, hints):
    """Lebesgue measure of {u in [0,1): scheme selects k} for every k, from the code's own answers.
    If the scheme draws twice, the first draw is fixed to u_first and the last draw is integrated."""
    _, ndraws = select(lifting, table, active, (0.5, 0.5))

    def f(u):
        us = (u,) if ndraws == 1 else (u_first,) * (ndraws - 1) + (u,)
        return select(lifting, table, active, us)[0]

    meas, answers, ends, n = measure_1d(f, hints)
    return meas, answers, ends, ndraws, n


def hints_for(table, active):
    qa = table[active][1]
    negs = [-q for _, q in table if q <= 0]
    S = sum(negs)
    off = sum(q for i, (_, q) in enumerate(table) if q > 0 and i < active)
    hs = []
    c = 0.0
    for r in negs:
        c += r
        hs += [(c - off) / qa, (S - c - off) / qa, (S - (c - r) - off) / qa, c / S if S else 0.0]
    return [h for h in hs if 0 <= h < 1]


def gen_table(rng):
    n = rng.randint(2, 12)
    style = rng.choice(["gauss", "zeros", "cancel", "spread", "dominant", "small_int"])
    vals = []
    for _ in range(n - 1):
        if style == "gauss":
            v = rng.gauss(0, 1)
        elif style == "zeros":
            v = rng.choice([0.0, 0.0, rng.gauss(0, 1), -0.0])
        elif style == "cancel":
            b = rng.choice([1.0, 0.3, 2.5])
            v = rng.choice([b, -b, b * (1 + 2.0 ** -52), -b * (1 + 2.0 ** -52), rng.gauss(0, 1)])
        elif style == "spread":
            v = rng.choice([-1, 1]) * 10 ** rng.uniform(-6, 6)
        elif style == "dominant":
            v = rng.gauss(0, 1e-3)
        else:
            v = float(rng.randint(-3, 3))
        vals.append(v)
    if style == "dominant":
        vals[0] = rng.choice([-1, 1]) * 100.0
    vals.append(-sum(vals))
    if rng.random() < 0.3:  # exact power-of-two rescaling: tiny and huge tables (the schemes must be scale free)
        sc = 2.0 ** rng.choice([-200, -120, -60, -45, -36, -20, 20, 60, 200])
        vals = [v * sc for v in vals]
        style += "*2^k"
    rng.shuffle(vals)
    if not any(v > 0 for v in vals):
        return gen_table(rng)
    return [((i,), v) for i, v in enumerate(vals)], style


def check_table(acc, scheme, table, style="replay"):
    lifting = _cls(scheme)()
    q = dict(table)
    tot = sum(abs(v) for _, v in table)
    positives = [i for i, (_, v) in enumerate(table) if v > 0]
    inflow = {}
    wit = {"scheme": scheme, "table": [[list(k), v.hex()] for k, v in table], "values": [v for _, v in table]}
    for a in positives:
        qa = table[a][1]
        hs = hints_for(table, a)
        results = []
        for u1 in (0.5, 0.13, 0.87):
            meas, answers, ends, ndraws, nev = measure(lifting, table, a, u1, hs)
            results.append(meas)
            acc.count("active_units_integrated")
            acc.count("selections_evaluated", nev)
            for k in answers:
                if not q[k] < 0:
                    m = meas.get(k, 0.0)
                    if q[k] == 0 and m < 1e-12:
                        key = "C05:zero-rate-selected-at-endpoint"
                    elif q[k] == 0:
                        key = "C05:zero-rate-selected"
                    else:
                        key = "C05:nonnegative-derivative-selected"
                    where = [e for e, v in ends.items() if v == k]
                    acc.violation(key, f"{scheme}: table {[v for _, v in table]} active {a}: selected unit {k} with "
                                       f"derivative {q[k]!r} (measure {m:.3e}, at {where})", dict(wit, active=a))
            if ndraws == 1:
                break
        if len(results) > 1:
            keys = set().union(*results)
            dep = max(abs(results[0].get(k, 0) - r.get(k, 0)) for r in results[1:] for k in keys)
            if dep > 1e-9:
                acc.violation("C05:depends-on-more-than-table-and-deciding-draw",
                              f"{scheme}: selection measure changes by {dep:.3e} with the first draw", dict(wit, active=a))
        meas = results[0]
        if abs(sum(meas.values()) - 1.0) > 1e-9:
            acc.notes.append(f"measure does not sum to one: {sum(meas.values())}")
            acc.count("measure_not_normalised")
        for k, m in meas.items():
            inflow[k] = inflow.get(k, 0.0) + qa * m
        # determinism + label independence at a few u
        for u in (0.0, 0.3141592653589793, 0.77, 1 - 2.0 ** -53):
            r1 = select(lifting, table, a, (u,))[0]
            r2 = select(_cls(scheme)(), table, a, (u,))[0]
            ren = [(("x",) + k, v) for k, v in table]
            r3 = select(lifting, ren, a, (u,))[0]
            acc.count("determinism_checks")
            if r1 != r2 or r3 != ("x",) + r1:
                acc.violation("C05:not-a-function-of-table-and-draw", f"{scheme}: u={u!r} active {a}: {r1} / {r2} / {r3}",
                              dict(wit, active=a, u=u))
    bad = []
    for k, v in table:
        want = -v if v < 0 else 0.0
        if abs(inflow.get(k, 0.0) - want) > 1e-9 * tot:
            bad.append((k, inflow.get(k, 0.0), want))
    acc.count("tables_balanced_checked")
    acc.count(f"tables_{scheme}")
    if len(positives) >= 2:
        acc.count("tables_with_several_positive_units")
    if any(v == 0 for _, v in table):
        acc.count("tables_with_zero_entries")
    if bad:
        acc.violation("C05:flow-imbalance", f"{scheme}: table {[v for _, v in table]}: inflow of unit {bad[0][0]} is "
                                            f"{bad[0][1]!r}, should be {bad[0][2]!r}", wit)


def check_composite_handler(acc, rng, tag=None):
    """Global balance THROUGH the real two-composite-object handler (the site that builds the table): one frozen pair of
    molecules, every leaf with a positive factor derivative made the active unit once (in either composite object), the
    handler's own confirmation + lifting run with scripted draws and the lifting draw integrated; the factor derivatives
    are computed here from the Coulomb energy, not taken from the handler."""
    import jellyfysh.setting as setting
    from vf.jf import init_setting
    from jellyfysh.base.node import Node
    from jellyfysh.base.time import Time
    from jellyfysh.base.unit import Unit
    from jellyfysh.event_handler.two_composite_object_summed_bounding_potential_event_handler import \
        TwoCompositeObjectSummedBoundingPotentialEventHandler
    from jellyfysh.potential.inverse_power_potential import InversePowerPotential
    k = rng.choice([2, 3, 3, 4])
    L = 20.0
    init_setting(3, [L] * 3, cubic=True, roots=2, per_root=k, levels=2)
    d = rng.randrange(3)
    vel = [0.0] * 3
    vel[d] = 1.0
    # half of the cases: the two molecules sit across a face of the periodic box (or one of them straddles it)
    across = rng.random() < 0.5
    base = rng.uniform(-0.8, 0.8) if across else rng.uniform(6.0, 8.0)
    centre = [[base if j == 0 or not across else rng.uniform(6.0, 8.0) for j in range(3)]]
    if not across:
        centre = [[rng.uniform(6.0, 8.0) for _ in range(3)]]
    centre.append([c + rng.uniform(1.2, 2.0) * rng.choice([-1, 1]) for c in centre[0]])
    pos = {(r, a): [(centre[r][j] + rng.uniform(-0.5, 0.5)) % L for j in range(3)] for r in range(2) for a in range(k)}
    ch = {(r, a): rng.choice([1.0, -1.0, 0.4, -0.8, 2.0]) for r in range(2) for a in range(k)}
    ids = sorted(pos)
    # the in-state as the mediator builds it from a factor file: one branch per listed point mass, in the order of the file's
    # index set, which need not be ascending (other half: two complete composite-object branches)
    per_leaf_order = list(ids) if rng.random() < 0.5 else None
    if per_leaf_order:
        rng.shuffle(per_leaf_order)
    # q_i = dU/dx_i along the direction of motion for U = sum over inter-object pairs c_i c_j / |r_i - r_j| (nearest images)
    q = {}
    for i in ids:
        t = 0.0
        for j in ids:
            if j[0] != i[0]:
                dx = [pos[i][m] - pos[j][m] for m in range(3)]
                dx = [c - L * math.floor(c / L + 0.5) for c in dx]
                t += -ch[i] * ch[j] * dx[d] / math.sqrt(sum(c * c for c in dx)) ** 3
        q[i] = t
    tot = sum(abs(v) for v in q.values())
    if tot == 0 or min(abs(v) for v in q.values()) < 1e-9 * tot:
        return
    wit = {"kind": "composite_handler", "k": k, "d": d, "positions": {str(i): pos[i] for i in ids},
           "charges": {str(i): ch[i] for i in ids}, "rerun": tag}

    def in_state(active, active_first):
        br = []
        if per_leaf_order:
            for i in per_leaf_order:
                act = active[0] == i[0]
                root = Node(Unit(identifier=(i[0],), position=list(pos[(i[0], 0)]), charge=None,
                                 velocity=[v / k for v in vel] if act else None,
                                 time_stamp=Time.from_float(0.0) if act else None), weight=1.0)
                a = i == active
                root.add_child(Node(Unit(identifier=i, position=list(pos[i]), charge={"charge": ch[i]},
                                         velocity=list(vel) if a else None, time_stamp=Time.from_float(0.0) if a else None),
                                    weight=1.0 / k))
                br.append(root)
            return br
        for r in (0, 1):
            mine = [i for i in ids if i[0] == r]
            c = [sum(pos[i][m] for i in mine) / k for m in range(3)]
            act = active[0] == r
            root = Node(Unit(identifier=(r,), position=c, charge=None, velocity=[v / k for v in vel] if act else None,
                             time_stamp=Time.from_float(0.0) if act else None), weight=1.0)
            for i in mine:
                a = i == active
                root.add_child(Node(Unit(identifier=i, position=list(pos[i]), charge={"charge": ch[i]},
                                         velocity=list(vel) if a else None, time_stamp=Time.from_float(0.0) if a else None),
                                    weight=1.0 / k))
            br.append(root)
        if (active[0] == 1) == active_first:
            br.reverse()
        return br

    for scheme in SCHEMES:
        inflow = {i: 0.0 for i in ids}
        ok = True
        for active in ids:
            if not q[active] > 0:
                continue

            def f(u, probe=None):
                h = TwoCompositeObjectSummedBoundingPotentialEventHandler(
                    potential=InversePowerPotential(power=1.0, prefactor=1.0),
                    bounding_potential=InversePowerPotential(power=1.0, prefactor=1.0), lifting=_cls(scheme)(), charge="charge")
                calls = [0]

                def uniform(a, b):
                    calls[0] += 1
                    return a if calls[0] == 1 else a + (b - a) * u   # first draw: confirmation (always confirm)
                old_u, old_e = random.uniform, random.expovariate
                random.uniform, random.expovariate = uniform, (lambda lam: 0.0)
                try:
                    t = h.send_event_time(in_state(active, True))
                    out = h.send_out_state()
                finally:
                    random.uniform, random.expovariate = old_u, old_e
                if probe is not None:
                    probe.append((t.quotient + t.remainder, calls[0]))
                new = [leaf.value.identifier for b in out for leaf in b.children if leaf.value.velocity is not None]
                return new[0] if len(new) == 1 else ("?", len(new))
            pr = []
            f(0.5, pr)
            if abs(pr[0][0]) > 1e-9 or pr[0][1] != 2:
                acc.count("composite_handler_cases_not_at_start_configuration")
                ok = False
                break
            meas, answers, ends, nev = measure_1d(f, grid=64)
            acc.count("composite_handler_active_units_integrated")
            acc.count("selections_evaluated", nev)
            for kk in answers:
                if kk not in q or not q[kk] < 0:
                    acc.violation("C05:nonnegative-derivative-selected",
                                  f"{scheme} through the two-composite-object handler: active {active}, selected {kk} with "
                                  f"factor derivative {q.get(kk)!r}", dict(wit, scheme=scheme, active=list(active)))
                    ok = False
            for kk, m in meas.items():
                if kk in inflow:
                    inflow[kk] += q[active] * m
        if not ok:
            continue
        acc.case(("composite_handler", scheme, k, d, tuple(pos[ids[0]])), nontrivial=True)
        acc.count("composite_handler_tables_balanced_checked")
        if across:
            acc.count("composite_handler_tables_across_a_box_face")
        if per_leaf_order:
            acc.count("composite_handler_tables_with_one_branch_per_point_mass")
        if sum(1 for r in (0, 1) if any(q[i] > 0 for i in ids if i[0] == r)) == 2:
            acc.count("composite_handler_tables_with_active_units_in_both_objects")
        for i in ids:
            want = -q[i] if q[i] < 0 else 0.0
            if abs(inflow[i] - want) > 1e-7 * tot:
                acc.violation("C05:flow-imbalance",
                              f"{scheme} through the two-composite-object handler ({k} leaves each, direction {d}): inflow of "
                              f"unit {i} is {inflow[i]!r}, its negative factor derivative is {want!r} (table {q})",
                              dict(wit, scheme=scheme))
                break
    setting.reset()


def check_cell_veto_composite(acc, rng, tag=None):
    """The same balance equation through the real CompositeObjectCellVetoEventHandler (real periodic cells, real dipole
    estimator), with and without the optional `potential` argument: the table must belong to the CONFIGURED factor
    potential. Both dipoles are made the active composite object in turn; the confirmation draw is scripted to confirm,
    the lifting draw is integrated."""
    import contextlib
    import io
    import jellyfysh.setting as setting
    from vf.jf import init_setting
    from jellyfysh.activator.internal_state.cell_occupancy.cells.cuboid_periodic_cells import CuboidPeriodicCells
    from jellyfysh.base.node import Node
    from jellyfysh.base.time import Time
    from jellyfysh.base.unit import Unit
    from jellyfysh.estimator.dipole_inner_point_estimator import DipoleInnerPointEstimator
    from jellyfysh.event_handler.composite_object_cell_veto_event_handler import CompositeObjectCellVetoEventHandler
    from jellyfysh.potential.inverse_power_potential import InversePowerPotential
    L = 1.0
    init_setting(3, [L] * 3, cubic=True, roots=2, per_root=2, levels=2)
    cps = [rng.randint(4, 5) for _ in range(3)]
    cells = CuboidPeriodicCells(cells_per_side=cps, neighbor_layers=1)
    p_est = 1.0
    explicit = rng.choice([None, 2.0, 3.0, 6.0])
    power = p_est if explicit is None else explicit
    d = rng.randrange(3)
    vel = [0.0] * 3
    vel[d] = 1.0
    centre = [[rng.uniform(0.4, 0.6) for _ in range(3)]]
    centre.append([c + rng.uniform(0.12, 0.3) * rng.choice([-1, 1]) for c in centre[0]])
    pos = {(r, a): [centre[r][j] + rng.uniform(-0.03, 0.03) for j in range(3)] for r in range(2) for a in range(2)}
    c0 = rng.choice([1.0, 0.7, 2.0])
    ch = {(0, 0): c0, (0, 1): -c0, (1, 0): c0, (1, 1): -c0}
    ids = sorted(pos)
    q = {}
    for i in ids:
        t = 0.0
        for j in ids:
            if j[0] != i[0]:
                dx = [pos[i][m] - pos[j][m] for m in range(3)]
                t += -power * ch[i] * ch[j] * dx[d] / math.sqrt(sum(c * c for c in dx)) ** (power + 2)
        q[i] = t
    tot = sum(abs(v) for v in q.values())
    if tot == 0 or min(abs(v) for v in q.values()) < 1e-9 * tot:
        setting.reset()
        return
    wit = {"kind": "cell_veto_composite", "d": d, "explicit_power": explicit, "cells_per_side": cps, "rerun": tag,
           "positions": {str(i): pos[i] for i in ids}}

    def branch(r, active):
        mine = [i for i in ids if i[0] == r]
        c = [sum(pos[i][m] for i in mine) / 2 for m in range(3)]
        act = active is not None and active[0] == r
        root = Node(Unit(identifier=(r,), position=c, charge=None, velocity=[v / 2 for v in vel] if act else None,
                         time_stamp=Time.from_float(0.0) if act else None), weight=1.0)
        for i in mine:
            a = i == active
            root.add_child(Node(Unit(identifier=i, position=list(pos[i]), charge={"q": ch[i]},
                                     velocity=list(vel) if a else None, time_stamp=Time.from_float(0.0) if a else None),
                                weight=0.5))
        return root

    for scheme in SCHEMES:
        est = DipoleInnerPointEstimator(potential=InversePowerPotential(power=p_est, prefactor=1.0), dipole_separation=0.05,
                                        prefactor=1.5, points_per_side=2, dipole_charge=c0)
        kw = {} if explicit is None else {"potential": InversePowerPotential(power=explicit, prefactor=1.0)}
        h = CompositeObjectCellVetoEventHandler(estimator=est, lifting=_cls(scheme)(), charge="q", **kw)
        with contextlib.redirect_stdout(io.StringIO()):
            h.initialize(cells, 1)
        inflow = {i: 0.0 for i in ids}
        ok = True
        for active in ids:
            if not q[active] > 0:
                continue

            def f(u):
                phase = ["time"]
                calls = [0]

                def uniform(a, b):
                    if phase[0] == "time":
                        return a + (b - a) * 0.5          # alias table
                    calls[0] += 1
                    return a if calls[0] == 1 else a + (b - a) * u    # confirmation (confirm), then the lifting draw
                old = (random.uniform, random.expovariate, random.choice)
                random.uniform, random.expovariate, random.choice = uniform, (lambda lam: 0.0), (lambda seq: seq[0])
                try:
                    h.send_event_time([branch(active[0], active)])
                    phase[0] = "out"
                    out = h.send_out_state(branch(1 - active[0], None))
                finally:
                    random.uniform, random.expovariate, random.choice = old
                new = [leaf.value.identifier for b in out for leaf in b.children if leaf.value.velocity is not None]
                return new[0] if len(new) == 1 else ("?", len(new))
            meas, answers, ends, nev = measure_1d(f, grid=64)
            acc.count("cell_veto_composite_active_units_integrated")
            acc.count("selections_evaluated", nev)
            for kk in answers:
                if kk not in q or not q[kk] < 0:
                    acc.violation("C05:nonnegative-derivative-selected",
                                  f"{scheme} through the composite-object cell-veto handler (potential power {power}, "
                                  f"{'explicit' if explicit else 'from the estimator'}): active {active}, selected {kk} with "
                                  f"factor derivative {q.get(kk)!r}", dict(wit, scheme=scheme, active=list(active)))
                    ok = False
            for kk, m in meas.items():
                if kk in inflow:
                    inflow[kk] += q[active] * m
        if not ok:
            continue
        acc.case(("cell_veto_composite", scheme, explicit, d, tuple(pos[ids[0]])), nontrivial=True)
        acc.count("cell_veto_composite_tables_balanced_checked")
        if explicit is not None:
            acc.count("cell_veto_composite_tables_with_explicit_potential")
        for i in ids:
            want = -q[i] if q[i] < 0 else 0.0
            if abs(inflow[i] - want) > 1e-7 * tot:
                acc.violation("C05:flow-imbalance",
                              f"{scheme} through the composite-object cell-veto handler (factor potential r^-{power}, "
                              f"{'given explicitly' if explicit else 'taken from the estimator'}; direction {d}): inflow of unit "
                              f"{i} is {inflow[i]!r}, its negative factor derivative is {want!r} (table {q})",
                              dict(wit, scheme=scheme))
                break
    setting.reset()


def shard_handler(acc, prop="C05", seed=0, shard=0, n=4):
    rng = core.rng_for(prop, seed, "handler", shard)
    for _ in range(n):
        check_composite_handler(acc, rng, {"seed": seed, "shard": shard, "n": n})
    for _ in range(max(1, n // 3)):
        check_cell_veto_composite(acc, rng, {"seed": seed, "shard": shard, "n": n})


def shard(acc, prop="C05", seed=0, shard=0, n=50):
    rng = core.rng_for(prop, seed, "shard", shard)
    directed = [[((0,), 0.0), ((1,), 1.0), ((2,), -1.0)], [((0,), 1.0), ((1,), 0.0), ((2,), -1.0)],
                [((0,), 1.0), ((1,), -1.0), ((2,), 0.0)], [((0,), 0.1), ((1,), 0.2), ((2,), -0.30000000000000004), ((3,), 0.0)],
                [((0,), 2.0), ((1,), 1.0), ((2,), -0.5), ((3,), -2.5)]]
    for i in range(n):
        if shard == 0 and i < len(directed):
            table, style = directed[i], "directed"
        else:
            table, style = gen_table(rng)
        for scheme in SCHEMES:
            acc.case((scheme, tuple(v for _, v in table)), nontrivial=len(table) > 2)
            check_table(acc, scheme, table, style)
        if shard == 0 and i in (4, 5, 6):
            acc.sample({"table": [v for _, v in table], "style": style, "schemes": list(SCHEMES)})


def main(ctx):
    nshards = ctx.pick(16, 64)
    n = ctx.pick(600, 4000)
    ctx.rule = ("case = (scheme, derivative table); tables of 2..12 entries summing to zero to rounding (gaussian, exact "
                "zeros, near-cancelling pairs, magnitudes over 1e12, one dominant entry, small integers), shuffled "
                "insertion order; for EVERY unit with positive derivative taken as the active one the selection is "
                "integrated over the scripted uniform draw (257-point grid + predicted breakpoints +-1e-13 + end points "
                "0, 2^-53, 1-2^-53, bisection between differing neighbours) and the balance equation "
                "sum_a q_a+ P(k|a) = |q_k-| is checked to 1e-9*sum|q|; non-trivial = tables with more than 2 entries")
    ctx.assumptions = ["the schemes draw through random.uniform (scripted by the harness); the measure is that of the "
                       "code's own answers, predicted breakpoints only place probes"]
    jobs = [{"seed": ctx.seed, "shard": s, "n": n} for s in range(nshards)]
    ctx.run_workers("vf.monitors.c05:shard", jobs)
    ctx.run_workers("vf.monitors.c05:shard_handler", [{"seed": ctx.seed, "shard": s, "n": ctx.pick(3, 12)} for s in range(16)])
    # in real runs: every selection made by a lifting scheme goes to a unit with a strictly negative recorded derivative
    from vf.monitors import suite
    names = ["dipoles/dipole_factors_inside_first", "dipoles/dipole_factors_outside_first", "dipoles/dipole_factors_ratio",
             "dipoles/dipole_motion", "water/coulomb_power_bounded_lj_inverted", "water/single_molecule"]
    if not ctx.quick:
        names += ["dipoles/cell_bounded", "dipoles/cell_veto", "water/coulomb_power_bounded_lj_cell_bounded"]
    rj = suite.jobs_for(ctx, ("C05",), 0, ctx.pick(4000, 60000), ctx.pick(2000, 20000), 0, shipped=names, seeds=ctx.pick((0,), (0, 1)))
    suite.run_suite(ctx, ("C05",), rj, timeout=ctx.pick(900, 3000))
    ctx.require("in_run_lifting_selections", 500)
    ctx.require("tables_balanced_checked", 1000)
    ctx.require("tables_with_several_positive_units", 300)
    ctx.require("tables_with_zero_entries", 100)
    ctx.require("active_units_integrated", 2000)
    ctx.require("composite_handler_tables_balanced_checked", 30)
    ctx.require("composite_handler_tables_with_active_units_in_both_objects", 15)
    ctx.require("cell_veto_composite_tables_balanced_checked", 10)
    ctx.require("cell_veto_composite_tables_with_explicit_potential", 5)


def replay(acc, w):
    x = w["witness"]
    if x.get("kind") in ("composite_handler", "cell_veto_composite"):
        shard_handler(acc, **x["rerun"])
        return
    if "table" not in x:
        from vf.monitors import c07
        c07.replay(acc, w)      # run-time witness: re-run the recorded scenario with the C05 in-run monitor
        return
    table = [(tuple(k), float.fromhex(v)) for k, v in x["table"]]
    check_table(acc, x["scheme"], table)
