"""C04 - thinning is sound: the scaled 1/r bound dominates the periodic Coulomb rate, acceptance is the exact ratio.

(R1) domination sweep with directed maximisation of true/bound over the minimum-image cube (real potentials, both C),
(R2) passive decision monitor on every thinned event of real runs + a scripted-uniform unit driver,
(R3) any 'bound exceeded' observation for the scaled 1/r bound is a violation."""
import math
import random

from vf import core, native
from vf.monitors import c07, suite

LEVEL = "exploration"
PROPS = ("C04",)
replay_run = c07.replay


def _pots(L, pref_true=1.0, pref_bound=1.5837):
    from vf.jf import init_setting
    init_setting(3, [L] * 3, cubic=True)
    from jellyfysh.potential.merged_image_coulomb_potential import MergedImageCoulombPotential
    from jellyfysh.potential.inverse_power_coulomb_bounding_potential import InversePowerCoulombBoundingPotential
    bound = InversePowerCoulombBoundingPotential() if pref_bound is None else \
        InversePowerCoulombBoundingPotential(prefactor=pref_bound)
    true = MergedImageCoulombPotential() if pref_true is None else MergedImageCoulombPotential(prefactor=pref_true)
    return true, bound


def ratio(true, bound, s, d, cc):
    """(q_true, q_bound) for unit speed along d with charge product cc."""
    v = [0.0] * 3
    v[d] = 1.0
    return true.derivative(v, list(s), cc, 1.0), bound.derivative(v, list(s), cc, 1.0)


def clamp(s, L):
    return [max(-L / 2, min(c, math.nextafter(L / 2, 0))) for c in s]


def shard_domination(acc, prop="C04", seed=0, shard=0, npoints=2000, nclimb=6):
    import jellyfysh.setting as setting
    rng = core.rng_for(prop, seed, "dom", shard)
    # None = the constructors' own defaults (what the shipped coulomb_atoms / dipoles configurations use)
    for L, pt, pb in ((1.0, None, None), (rng.choice([3.7, 10.0, 0.37]), None, None), (10.0, 332.0, 531.2)):
        true, bound = _pots(L, pt, pb)
        if shard % 3 == 1:      # the objects as a resumed run holds them
            import pickle
            true, bound = pickle.loads(pickle.dumps(true)), pickle.loads(pickle.dumps(bound))
            acc.count("domination_boxes_with_unpickled_potentials")
        elif shard % 3 == 2:    # the objects as the taggers' deep-copied event handlers hold them
            import copy
            true, bound = copy.deepcopy(true), copy.deepcopy(bound)
            acc.count("domination_boxes_with_deepcopied_potentials")
        worst = []

        def judge(s, d, cc, where):
            qt, qb = ratio(true, bound, s, d, cc)
            acc.count("domination_points")
            if qt > 0:
                acc.count("domination_points_with_positive_true_rate")
                if not qb > 0 or qb < qt:
                    acc.violation("C04:bound-below-true-rate",
                                  f"L={L}, prefactors {pt}/{pb}: at s={s}, direction {d}, charge product {cc}: true rate {qt!r} > "
                                  f"bounding rate {qb!r} ({where})",
                                  {"kind": "domination", "L": L, "s": [x.hex() for x in s], "d": d, "cc": cc, "pt": pt, "pb": pb})
                r = qt / qb if qb > 0 else math.inf
                return r
            return -1.0

        for n in range(npoints):
            d = rng.randrange(3)
            cc = rng.choice([1.0, -1.0])
            st = rng.random()
            if st < 0.5:
                s = [rng.uniform(-L / 2, L / 2) for _ in range(3)]
            elif st < 0.8:  # faces / edges / corners / origin
                s = [rng.uniform(-L / 2, L / 2) for _ in range(3)]
                eps = L * 10 ** rng.uniform(-9, -2)
                for j in rng.sample(range(3), rng.randint(1, 3)):
                    s[j] = rng.choice([-1, 1]) * (L / 2 - eps)
                if rng.random() < 0.3:
                    s[d] = rng.choice([-1, 1]) * eps
            else:
                f = 10 ** rng.uniform(-4, -1)
                s = [rng.uniform(-L / 2, L / 2) * f for _ in range(3)]
            s = clamp(s, L)
            acc.case(("dom", L, tuple(s), d, cc), nontrivial=True)
            r = judge(s, d, cc, "sampled")
            worst.append((r, s, d, cc))
        worst.sort(key=lambda w: -w[0])
        starts = [w for w in worst[:nclimb]]
        # structured starts: component along the motion small, transverse components in {0, +-L/4, +-L/2}
        for _ in range(nclimb):
            d = rng.randrange(3)
            cc = rng.choice([1.0, -1.0])
            s = [rng.choice([0.0, L / 4, -L / 4, L / 2 - 1e-9 * L, -L / 2]) for _ in range(3)]
            s[d] = math.copysign(L * 10 ** rng.uniform(-9, -0.5), cc)
            starts.append((0.0, clamp(s, L), d, cc))
        best_overall = 0.0
        for r0, s, d, cc in starts:
            s = list(s)
            best = judge(s, d, cc, "climb start")
            step = 0.05 * L
            while step > 1e-12 * L:
                improved = False
                for j in range(3):
                    for sg in (1, -1):
                        t = list(s)
                        t[j] += sg * step
                        t = clamp(t, L)
                        if t[d] == 0.0:
                            continue
                        r = judge(t, d, cc, "hill climb")
                        acc.count("hill_climb_evaluations")
                        if r > best:
                            best, s, improved = r, t, True
                if not improved:
                    step /= 3
            acc.count("hill_climbs")
            best_overall = max(best_overall, best)
            acc.maxi("max_ratio_true_over_bound", best)
            if best > 0.9995:
                acc.count("climbs_reaching_critical_set")
        if shard == 0:
            acc.sample({"L": L, "prefactors": [pt, pb], "max_ratio_found": best_overall})
    setting.reset()


def shard_unit(acc, prop="C04", seed=0, shard=0, n=200):
    """Scripted uniform around the acceptance ratio on the real TwoLeafUnitBoundingPotentialEventHandler."""
    import jellyfysh.setting as setting
    from vf.monitors.c18 import Script
    from vf import probe
    rng = core.rng_for(prop, seed, "unit", shard)
    L = rng.choice([1.0, 3.7])
    true, bound = _pots(L)
    from jellyfysh.base.node import Node
    from jellyfysh.base.time import Time
    from jellyfysh.base.unit import Unit
    from jellyfysh.event_handler.two_leaf_unit_bounding_potential_event_handler import \
        TwoLeafUnitBoundingPotentialEventHandler
    h = TwoLeafUnitBoundingPotentialEventHandler(potential=true, bounding_potential=bound, charge="q")
    for i in range(n):
        d = rng.randrange(3)
        speed = rng.choice([1.0, 0.5, 2.0])
        pa = [rng.uniform(0, L) for _ in range(3)]
        pb = [rng.uniform(0, L) for _ in range(3)]
        qa, qb = rng.choice([1.0, -1.0, 0.41]), rng.choice([1.0, -1.0, -0.82])
        vel = [0.0] * 3
        vel[d] = speed
        e = rng.expovariate(1.0)

        def in_state():
            a = Node(Unit(identifier=(0,), position=list(pa), charge={"q": qa}, velocity=list(vel),
                          time_stamp=Time.from_float(rng.choice([0.0, 17.25]))), weight=1)
            b = Node(Unit(identifier=(1,), position=list(pb), charge={"q": qb}), weight=1)
            return [a, b] if i % 2 == 0 else [b, a]
        with Script() as s:
            s.e = e
            st = in_state()
            stamp0 = next(c.value.time_stamp for c in st if c.value.velocity is not None)
            stamp0 = (stamp0.quotient, stamp0.remainder)
            t = h.send_event_time(st)
            if math.isinf(t.quotient):
                acc.count("unit_infinite_candidates")
                continue
            dt = (t.quotient - stamp0[0]) + (t.remainder - stamp0[1])
            # event-time separation, rates recomputed by the harness
            pa_t = list(pa)
            pa_t[d] = (pa[d] + speed * dt) % L
            sep = []
            for k in range(3):
                x = math.fmod(pb[k] - pa_t[k], L)
                x = x - L if x >= L / 2 else (x + L if x < -L / 2 else x)
                sep.append(x)
            qt = true.derivative(list(vel), list(sep), qa, qb)
            qbd = bound.derivative(list(vel), list(sep), qa, qb)
            if not qt > 0:
                s.u = 0.0
                out = h.send_out_state()
                acc.count("unit_nonpositive_true_rate")
                if s.calls["uniform"]:
                    pass
                if any(c.value.identifier == (1,) and c.value.velocity is not None for c in out):
                    acc.violation("C04:acceptance-rule", f"true rate {qt!r} <= 0 but the event was confirmed",
                                  {"kind": "unit", "pa": pa, "pb": pb, "d": d})
                continue
            r = qt / qbd
            for u in (0.0, r * (1 - 1e-9), r * (1 + 1e-9), min(r * 1.5, 1 - 2.0 ** -53), r * 0.5, 1 - 2.0 ** -53):
                s.u = u
                s.uniform_args.clear()
                st = in_state()
                h.send_event_time(st)
                out = h.send_out_state()
                acc.case(("unit", tuple(pa), tuple(pb), d, u), nontrivial=True)
                acc.count("scripted_decisions")
                conf = any(c.value.identifier == (1,) and c.value.velocity is not None for c in out)
                a, b = s.uniform_args[-1] if s.uniform_args else (None, None)
                wit = {"kind": "unit", "L": L, "pa": pa, "pb": pb, "d": d, "qa": qa, "qb": qb, "u": u, "ratio": r}
                if a != 0 or b is None or abs(b - qbd) > 1e-9 * qbd:
                    acc.violation("C04:confirmation-limit-differs-from-bound",
                                  f"draw uniform({a!r}, {b!r}), bounding rate at the event position is {qbd!r}", wit)
                    break
                if conf != (u < r):
                    acc.violation("C04:acceptance-rule", f"u = {u!r}, true/bound = {r!r}: event "
                                                         f"{'confirmed' if conf else 'rejected'}", wit)
                    break
                if conf:
                    acc.count("scripted_confirmed")
                    va = next(c.value.velocity for c in out if c.value.identifier == (0,))
                    vb = next(c.value.velocity for c in out if c.value.identifier == (1,))
                    if va is not None or vb != vel:
                        acc.violation("C04:hand-over", f"after a confirmed event velocities are {va} / {vb}", wit)
                else:
                    acc.count("scripted_rejected")
                    va = next(c.value.velocity for c in out if c.value.identifier == (0,))
                    vb = next(c.value.velocity for c in out if c.value.identifier == (1,))
                    if va != vel or vb is not None:
                        acc.violation("C04:unconfirmed-event-changed-velocity", f"velocities {va} / {vb} after a rejected event", wit)
    setting.reset()


def main(ctx):
    ctx.rule = ("(R1) case = (box length, separation, direction, charge sign): the two real C-backed potentials at identical "
                "arguments; uniform + face/edge/corner/origin-stratified samples, then coordinate hill climbing of true/bound "
                "from the worst samples and from structured starts (small component along the motion, transverse components in "
                "{0, +-L/4, +-L/2}); default prefactor 1.5837 and the shipped scaled pair 332/531.2; (R2) case = one thinned "
                "event: passive monitor in runs of all shipped Coulomb configurations (uniform draw, warning call and "
                "velocities recorded; both rates recomputed from the event-time positions for handlers using the scaled 1/r "
                "bound) + scripted uniform on a grid around the ratio for the real two-leaf-unit handler; distinct = argument "
                "tuples + thinned events")
    ctx.assumptions = ["correctness of each potential's derivative is C03's subject; here only their relation matters",
                       "estimator-based cell bounds are not claimed to be true bounds: exceedances are reported as a statistic"]
    ctx.run_workers("vf.monitors.c04:shard_domination", [{"seed": ctx.seed, "shard": s, "npoints": ctx.pick(2500, 20000),
                                                          "nclimb": ctx.pick(4, 10)} for s in range(ctx.pick(16, 64))],
                    timeout=3000)
    ctx.run_workers("vf.monitors.c04:shard_unit", [{"seed": ctx.seed, "shard": s, "n": ctx.pick(150, 1500)}
                                                   for s in range(ctx.pick(8, 32))], timeout=3000)
    names = [n for n in suite.scenario.SHIPPED if n.split("/")[0] in ("coulomb_atoms", "dipoles", "water")
             and n != "water/single_molecule"]
    sh_ev, slow_ev = ctx.pick((3000, 2500), (60000, 30000))
    jobs = suite.jobs_for(ctx, PROPS, 0, sh_ev, slow_ev, 0, shipped=names, seeds=ctx.pick((0,), (0, 1, 2)))
    for j in jobs:
        if "cell_veto" in j["label"]:   # almost all cell-veto proposals hit an empty cell: many events per thinned one
            j["max_events"] = ctx.pick(30000, 200000)
    suite.run_suite(ctx, PROPS, jobs, timeout=ctx.pick(900, 3000))
    ctx.require("domination_points_with_positive_true_rate", 50000)
    ctx.require("climbs_reaching_critical_set", 5)
    ctx.require("thinned_events_seen", 5000)
    ctx.require("rates_recomputed", 1500)
    ctx.require("scripted_confirmed", 300)
    ctx.require("scripted_rejected", 300)
    if ctx.counters.get("max_ratio_true_over_bound", 0) < 0.9995:
        ctx.inconclusive.append(f"the directed search only reached true/bound = {ctx.counters.get('max_ratio_true_over_bound')}: "
                                f"the critical set (ratio 0.9999 at the centre of a transverse edge) was not reached")
    by = ctx.counters.get("thinned_events_by_handler_class", {})
    for cls in ("TwoLeafUnitBoundingPotentialEventHandler", "TwoCompositeObjectSummedBoundingPotentialEventHandler",
                "TwoLeafUnitCellBoundingPotentialEventHandler", "TwoCompositeObjectCellBoundingPotentialEventHandler",
                "LeafUnitCellVetoEventHandler", "CompositeObjectCellVetoEventHandler"):
        if by.get(cls, 0) < 20:
            ctx.inconclusive.append(f"fewer than 20 thinned events observed for {cls}")


def replay(acc, w):
    x = w["witness"]
    if x.get("kind") == "domination":
        true, bound = _pots(x["L"], x["pt"], x["pb"])
        s = [float.fromhex(v) for v in x["s"]]
        qt, qb = ratio(true, bound, s, x["d"], x["cc"])
        if qt > 0 and (qb < qt or not qb > 0):
            acc.violation("C04:bound-below-true-rate", f"replayed: true {qt!r}, bound {qb!r} at s={s}", x)
    elif x.get("kind") == "unit":
        acc.notes.append("replay the unit driver with the recorded seed")
    else:
        replay_run(acc, w)
