"""C06 - scheduler yields a live event with minimal time; the C heap is memory safe.

History + executable model: protocol-respecting push/trash/get histories run on the real HeapScheduler (plain and
ASan+UBSan build of heap.c), the real ListScheduler and a dict model; plus C drivers (ASan, valgrind, libFuzzer)."""
import math
import os
import pickle
import subprocess
import time as _time

from vf import core, gen, native

LEVEL = "exploration"
INF = math.inf


class Hd(object):
    """A stand-in for an event handler (hashable by identity, picklable by value)."""

    def __init__(self, i):
        self.i = i

    def __repr__(self):
        return f"H{self.i}"


class Model(object):
    """Reference scheduler: handler id -> live (quotient, remainder)."""

    def __init__(self):
        self.live = {}

    def push(self, h, t):
        assert h not in self.live
        self.live[h] = t

    def trash(self, h):
        del self.live[h]

    def min_finite(self):
        fin = [t for t in self.live.values() if t[0] < INF]
        return min(fin) if fin else None


class Sut(object):
    """One real scheduler + its handler objects."""

    def __init__(self, kind, nh):
        from jellyfysh.scheduler.heap_scheduler import HeapScheduler
        from jellyfysh.scheduler.list_scheduler import ListScheduler
        self.kind = kind
        self.s = HeapScheduler() if kind == "heap" else ListScheduler()
        self.h = [Hd(i) for i in range(nh)]

    def clone(self, how):
        c = object.__new__(Sut)
        c.kind = self.kind
        if how == "dill":
            import dill
            c.s, c.h = dill.loads(dill.dumps((self.s, self.h)))
        else:
            c.s, c.h = pickle.loads(pickle.dumps((self.s, self.h)))
        return c


def gen_time(rng, now, style):
    """A candidate time >= now (as (q, r))."""
    q, r = now
    c = rng.random()
    if style == "ties" and c < 0.35:
        return (q, r)
    if c < 0.15:
        return (q, r)  # exact tie with the current time
    if c < 0.35:  # same quotient, larger remainder
        r2 = r + (1 - r) * rng.random() * rng.choice([1.0, 1e-3, 1e-9])
        return (q, r2) if r2 < 1.0 else (q + 1, 0.0)
    if c < 0.5:  # same remainder, larger quotient
        return (q + rng.choice([1, 1, 2, 5, 1000]), r)
    if c < 0.6:  # larger quotient, smaller remainder (order must be decided by the quotient)
        return (q + rng.choice([1, 2, 3]), r * rng.random())
    if c < 0.65:
        return (INF, INF)
    dt = gen.logu(rng, 1e-9, 1e3) if style != "big" else gen.logu(rng, 1e-3, 2.0 ** 45)
    s = r + dt
    return (q + math.floor(s), s - math.floor(s))


def run_history(acc, rng, nh, nops, style, pickle_at=(), wrap=None, tag=None):
    """Returns False on the first violation."""
    from jellyfysh.base.time import Time
    from jellyfysh.base.exceptions import SchedulerError
    suts = [Sut("heap", nh), Sut("list", nh)]
    model = Model()
    now = (float(rng.choice([0, 0, 5, 2 ** 31, 2 ** 40, 2 ** 52 - 4096])) if style == "big" else 0.0, 0.0)
    wit = dict(tag or {})
    if wrap:  # white-box poke: handler counters just below 2^32 (equivalent to 2^32-k earlier trashes of these handlers)
        for i, c in wrap.items():
            suts[0].s._minimal_valid_counter[suts[0].h[i]] = c
    ops = 0
    log = []

    def fail(key, what):
        acc.violation(key, what, dict(wit, op_index=ops, last_ops=log[-12:]))
        return False

    def do_push(i, t):
        model.push(i, t)
        for s in suts:
            s.s.push_event(Time(*t), s.h[i])
        log.append(("push", i, t[0], t[1]))

    def do_trash(i):
        not_root = model.min_finite() is not None and model.live[i] != model.min_finite() and model.live[i][0] < INF
        model.trash(i)
        for s in suts:
            s.s.trash_event(s.h[i])
        log.append(("trash", i))
        if not_root:
            acc.count("lazy_deletions_below_root")

    def do_get():
        nonlocal now
        want = model.min_finite()
        log.append(("get",))
        for s in suts:
            if want is None and model.live and s.kind == "list":
                # only infinite events are live: outside the statement for the list scheduler (it would return one and
                # then, rightly, refuse any later finite time); the heap must report an empty scheduler
                acc.count("gets_skipped_only_infinite_live")
                continue
            try:
                h = s.s.get_succeeding_event()
            except SchedulerError as e:
                if want is not None:
                    return fail(f"C06:{s.kind}-raises-although-finite-event-live",
                                f"{s.kind}: SchedulerError '{str(e)[:80]}' although minimal live time is {want}")
                if not model.live or s.kind == "heap":
                    acc.count("empty_scheduler_errors")
                    continue
                return fail("C06:list-raises-on-infinite-only", f"list scheduler raised with live infinite events")
            except Exception as e:
                return fail(f"C06:{s.kind}-get-raises", f"{s.kind}: {type(e).__name__}: {e}")
            if not isinstance(h, Hd) or h is not s.h[h.i]:
                return fail(f"C06:{s.kind}-returns-foreign-object", f"{s.kind} returned {h!r}")
            if h.i not in model.live:
                return fail(f"C06:{s.kind}-returns-trashed-event", f"{s.kind} returned {h!r} which has no live event "
                                                                  f"(minimal live time {want})")
            got = model.live[h.i]
            if want is None:
                if s.kind == "heap":
                    return fail("C06:heap-returns-infinite-event", f"heap returned {h!r} with time {got}")
                acc.count("list_returned_infinite_when_nothing_finite")
                continue
            if got != want:
                key = (f"C06:{s.kind}-returns-infinite-before-finite" if got[0] == INF
                       else f"C06:{s.kind}-returns-non-minimal-time")
                return fail(key, f"{s.kind} returned {h!r} with live time {got}, minimal live time is {want}")
            acc.count("gets_checked")
        if want is not None:
            now = want
        return True

    pending_wrap = dict(wrap or {})
    while ops < nops:
        ops += 1
        if ops in pickle_at:
            how = "dill" if rng.random() < 0.5 else "pickle"
            try:
                suts = [s.clone(how) for s in suts]
            except Exception as e:
                return fail("C06:pickle-raises", f"{how}: {type(e).__name__}: {e}")
            acc.count("pickle_roundtrips")
            wit["pickled_with"] = how
        free = [i for i in range(nh) if i not in model.live]
        c = rng.random()
        if free and (c < 0.45 or not model.live):
            i = rng.choice(free)
            do_push(i, gen_time(rng, now, style))
        elif model.live and c < 0.8:
            # trash: prefer the handler that was just returned (mediator behaviour) half of the time
            m = model.min_finite()
            cands = list(model.live)
            if m is not None and rng.random() < 0.5:
                cands = [i for i in cands if model.live[i] == m]
            i = rng.choice(cands)
            if i in pending_wrap:
                acc.count("wrap_candidates_trashed")
            do_trash(i)
        else:
            if not do_get():
                return False
            if rng.random() < 0.7 and model.min_finite() is not None:
                # the mediator trashes the committing handler right after the event
                m = model.min_finite()
                i = rng.choice([i for i in model.live if model.live[i] == m])
                do_trash(i)
    if not do_get():
        return False
    # drain: everything that is live must come out in order
    for _ in range(min(len(model.live), 200)):
        m = model.min_finite()
        if m is None:
            break
        if not do_get():
            return False
        i = rng.choice([i for i in model.live if model.live[i] == m])
        do_trash(i)
    # the wrap path really happened?
    hs = suts[0]
    for i, c0 in (wrap or {}).items():
        if hs.s._minimal_valid_counter.get(hs.h[i], 0) < c0:
            acc.count("counter_wraparounds")
    return True


def parked_overflow(acc, rng, size, delta, style, no_entries=False):
    """Fill the heap array to exactly size-1+delta entries without any get, then force the counter-overflow path
    (delete_events + reset) for a handler that owns several entries, one of them last in the array; then check order."""
    from jellyfysh.base.time import Time
    from jellyfysh.base.exceptions import SchedulerError
    nh = 8
    sut = Sut("heap", nh)
    lst = Sut("list", nh)
    model = Model()
    w = 0  # the handler whose counter will wrap
    k = 1 if no_entries else rng.randint(1, 4)
    sut.s._minimal_valid_counter[sut.h[w]] = 2 ** 32 - k
    target = size - 1 + delta  # entries in the C array including the sentinel
    pushes = 0
    wit = {"kind": "parked_overflow", "size": size, "delta": delta, "k": k, "no_entries": no_entries}
    if no_entries:
        # w's only event so far has an infinite time: the heap ignores it, so delete_events will find nothing to remove
        model.push(w, (INF, INF))
        sut.s.push_event(Time(INF, INF), sut.h[w])
        lst.s.push_event(Time(INF, INF), lst.h[w])
        target += 1
    early = k - 1  # w is pushed `early` times early and once as the very last entry of the array
    for p in range(target - 1):
        last = p == target - 2
        if (last and not no_entries) or (early > 0 and p % 3 == 0):
            i = w
            if not last:
                early -= 1
        else:
            i = rng.randrange(1, nh)
        if i in model.live:
            model.trash(i)
            sut.s.trash_event(sut.h[i])
            lst.s.trash_event(lst.h[i])
        t = (float(60 + p), rng.random()) if last else (float(rng.randrange(0, 50)), rng.random())
        model.push(i, t)
        sut.s.push_event(Time(*t), sut.h[i])
        lst.s.push_event(Time(*t), lst.h[i])
        pushes += 1
    # now make w's counter exceed 2^32-1 and push: OverflowError path inside push_event
    # (a fixed number of trashes, not "until the stored counter exceeds": an implementation that wraps the counter itself
    # must still terminate here and be judged by the drain below)
    for _ in range(2 ** 32 - sut.s._minimal_valid_counter[sut.h[w]]):
        if w in model.live:
            model.trash(w)
            sut.s.trash_event(sut.h[w])
            lst.s.trash_event(lst.h[w])
        else:
            sut.s.trash_event(sut.h[w])  # heap: harmless extra trash (nothing live); list has nothing to remove
    t = (float(rng.randrange(0, 50)), rng.random())
    model.push(w, t)
    try:
        sut.s.push_event(Time(*t), sut.h[w])
    except Exception as e:
        acc.violation("C06:overflow-path-raises", f"{type(e).__name__}: {e}", wit)
        return
    lst.s.push_event(Time(*t), lst.h[w])
    if sut.s._minimal_valid_counter[sut.h[w]] == 0:
        acc.count("counter_wraparounds")
        acc.count("parked_overflows")
    # drain and compare
    while model.live:
        m = model.min_finite()
        try:
            h = sut.s.get_succeeding_event()
            hl = lst.s.get_succeeding_event()
        except Exception as e:
            acc.violation("C06:heap-raises-although-finite-event-live", f"after overflow at array size {size}{delta:+d}: "
                                                                        f"{type(e).__name__}: {e}", wit)
            return
        for name, x in (("heap", h), ("list", hl)):
            if x.i not in model.live:
                acc.violation(f"C06:{name}-returns-trashed-event", f"after counter wrap-around at array size "
                                                                   f"{size}{delta:+d}: returned {x!r}", wit)
                return
            if model.live[x.i] != m:
                acc.violation(f"C06:{name}-returns-non-minimal-time", f"after counter wrap-around at array size "
                                                                      f"{size}{delta:+d}: {model.live[x.i]} vs {m}", wit)
                return
        acc.count("gets_checked")
        i = rng.choice([i for i in model.live if model.live[i] == m])
        model.trash(i)
        sut.s.trash_event(sut.h[i])
        lst.s.trash_event(lst.h[i])
    try:
        sut.s.get_succeeding_event()
        acc.violation("C06:no-error-on-empty-scheduler", "heap scheduler returned an event although nothing is live", wit)
    except SchedulerError:
        acc.count("empty_scheduler_errors")


def grow_drain_pickle(acc, rng, n, m, how):
    """The heap grows past a reallocation boundary, is drained down to n - m entries through get + trash, is pickled at that
    smaller fill, and the clone must go on accepting pushes and returning minima (memory bookkeeping of the restored heap)."""
    from jellyfysh.base.time import Time
    from jellyfysh.base.exceptions import SchedulerError
    nh = n + 8
    sut, model = Sut("heap", nh), Model()
    wit = {"kind": "grow_drain_pickle", "n": n, "m": m, "how": how}
    try:
        for i in range(n):
            t = (float(i // 7), rng.random())
            model.push(i, t)
            sut.s.push_event(Time(*t), sut.h[i])
        for _ in range(m):
            want = model.min_finite()
            h = sut.s.get_succeeding_event()
            if model.live.get(h.i) != want:
                acc.violation("C06:heap-returns-non-minimal-time", f"while draining {n} entries: {model.live.get(h.i)} vs {want}", wit)
                return
            model.trash(h.i)
            sut.s.trash_event(sut.h[h.i])
        sut = sut.clone(how)
        acc.count("pickle_roundtrips")
        acc.count("pickles_of_a_drained_heap")
        free = [i for i in range(nh) if i not in model.live]
        for i in free[:rng.randint(1, 8)]:
            t = (float(n), rng.random())
            model.push(i, t)
            sut.s.push_event(Time(*t), sut.h[i])
        for _ in range(min(len(model.live), 40)):
            want = model.min_finite()
            h = sut.s.get_succeeding_event()
            acc.count("gets_checked")
            if model.live.get(h.i) != want:
                acc.violation("C06:heap-returns-non-minimal-time", f"after the {how} of a heap drained from {n} to {n - m} "
                                                                   f"entries: {model.live.get(h.i)} vs {want}", wit)
                return
            model.trash(h.i)
            sut.s.trash_event(sut.h[h.i])
    except (SchedulerError, MemoryError, Exception) as e:
        acc.violation("C06:heap-raises-although-finite-event-live",
                      f"heap grown to {n} entries, drained by {m}, round trip through {how}: {type(e).__name__}: {e}", wit)


def shard(acc, prop="C06", seed=0, shard=0, histories=10, maxops=2000, flavor="plain"):
    import sys
    mod = sys.modules["jellyfysh.scheduler.heap_scheduler._heap"]
    if mod._verif_flavor != flavor:
        raise core.Inconclusive(f"heap extension flavor {mod._verif_flavor}, wanted {flavor}")
    acc.count(f"histories_{flavor}", 0)
    rng = core.rng_for(prop, seed, "hist", shard, flavor)
    for k in range(histories):
        style = rng.choice(["mixed", "ties", "big", "mixed"])
        nh = rng.choice([1, 2, 3, 5, 8, 20, 63, 64, 65, 130, 300, 700]) if rng.random() < 0.85 else rng.randint(700, 3000)
        nops = min(maxops, max(50, nh * rng.choice([3, 6, 12])))
        npick = rng.choice([0, 0, 1, 2, 3])
        pickle_at = {rng.randint(1, nops) for _ in range(npick)}
        wrap = None
        if rng.random() < 0.4:
            wrap = {i: 2 ** 32 - rng.randint(1, 3) for i in rng.sample(range(nh), min(nh, rng.randint(1, 3)))}
        tag = {"kind": "history", "shard": shard, "k": k, "flavor": flavor, "seed": seed, "style": style, "nh": nh,
               "nops": nops, "pickle_at": sorted(pickle_at), "wrap": wrap}
        sub = core.rng_for(prop, seed, "hist", shard, flavor, k)
        ok = run_history(acc, sub, nh, nops, style, pickle_at, wrap, tag)
        acc.case(("hist", flavor, shard, k), nontrivial=nh >= 2)
        acc.count(f"histories_{flavor}")
        if nh >= 64:
            acc.count("histories_crossing_reallocation")
        if shard == 0 and k < 2:
            acc.sample({k2: v for k2, v in tag.items() if k2 != "kind"})
    # reallocation boundaries x drain depths x pickle flavours
    for n in (63, 64, 65, 70, 127, 130, 200, 260, 520):
        for frac in (0.03, 0.15, 0.4, 0.65, 0.9):
            sub = core.rng_for(prop, seed, "gdp", shard, n, frac)
            grow_drain_pickle(acc, sub, n, max(1, int(n * frac)), "dill" if sub.random() < 0.5 else "pickle")
            acc.case(("gdp", flavor, shard, n, frac), nontrivial=True)
    # parked overflow sweeps
    sizes = [64, 128, 256, 512, 1024, 2048]
    for size in sizes:
        for delta in (-2, -1, 0, 1, 2):
            sub = core.rng_for(prop, seed, "park", shard, size, delta)
            parked_overflow(acc, sub, size, delta, "mixed")
            parked_overflow(acc, sub, size, delta, "mixed", no_entries=True)
            acc.case(("park", flavor, shard, size, delta), nontrivial=True, n=2)


# -- C drivers -----------------------------------------------------------------------------------------------------------
HEAP_SRC = ["jellyfysh/scheduler/heap_scheduler/heap.c"]


def run_driver(ctx, flavor, seeds, nops, timeout):
    """heap_driver.c: random protocol histories against heap.c with an in-driver shadow model."""
    try:
        exe = native.build_driver("heap_driver", flavor, HEAP_SRC)
    except RuntimeError as e:
        ctx.inconclusive.append(str(e)[:500])
        return
    for s in seeds:
        cmd = [exe, str(s), str(nops)]
        env = dict(os.environ, ASAN_OPTIONS="detect_leaks=1:exitcode=97", UBSAN_OPTIONS="print_stacktrace=1:exitcode=98")
        if flavor == "valgrind":
            cmd = ["valgrind", "-q", "--error-exitcode=99", "--track-origins=yes", "--leak-check=full"] + cmd
        try:
            p = subprocess.run(cmd, stdout=subprocess.PIPE, stderr=subprocess.PIPE, timeout=timeout, env=env)
        except subprocess.TimeoutExpired:
            ctx.inconclusive.append(f"heap_driver {flavor} seed {s}: watchdog")
            continue
        out = p.stdout.decode(errors="replace")
        err = p.stderr.decode(errors="replace")
        ctx.case(("driver", flavor, s), nontrivial=True)
        if p.returncode == 0 and "OK ops=" in out:
            ctx.count(f"driver_{flavor}_runs")
            for tok in out.split():
                if "=" in tok:
                    k, v = tok.split("=", 1)
                    if v.isdigit():
                        ctx.count(f"driver_{k}", int(v))
        elif p.returncode == 3:
            ctx.violation("C06:c-heap-order-mismatch", f"heap_driver ({flavor}) seed {s}: {out.strip()[-300:]}",
                          {"kind": "driver", "flavor": flavor, "seed": s, "nops": nops})
        elif p.returncode in (97, 98, 99) or "Sanitizer" in err or "runtime error" in err:
            ctx.violation("C06:c-heap-memory-error", f"heap_driver ({flavor}) seed {s}: " + _first_report(err),
                          {"kind": "driver", "flavor": flavor, "seed": s, "nops": nops, "report": err[-1500:]})
        else:
            ctx.inconclusive.append(f"heap_driver {flavor} seed {s} rc={p.returncode}: {err[-300:]}")


def _first_report(err):
    for ln in err.splitlines():
        if "ERROR" in ln or "runtime error" in ln or "Invalid" in ln or "uninitialised" in ln:
            return ln.strip()[:300]
    return err.strip()[-300:]


def run_fuzzer(ctx, seconds, jobs):
    try:
        exe = native.build_driver("heap_fuzz", "fuzzer", HEAP_SRC)
    except RuntimeError as e:
        ctx.inconclusive.append(str(e)[:500])
        return
    corpus = os.path.join(native.BUILD, "heap_fuzz_corpus")
    os.makedirs(corpus, exist_ok=True)
    art = os.path.join(core.HOME, "replays", "heap_fuzz-")
    procs = []
    for j in range(jobs):
        cmd = [exe, corpus, f"-max_total_time={seconds}", "-max_len=4096", f"-seed={ctx.seed * 100 + j + 1}",
               f"-artifact_prefix={art}", "-print_final_stats=1", "-verbosity=0"]
        procs.append(subprocess.Popen(cmd, stdout=subprocess.PIPE, stderr=subprocess.PIPE))
    for j, p in enumerate(procs):
        try:
            out, err = p.communicate(timeout=seconds * 3 + 120)
        except subprocess.TimeoutExpired:
            p.kill()
            ctx.inconclusive.append("fuzzer watchdog")
            continue
        err = err.decode(errors="replace")
        execs = 0
        for ln in err.splitlines():
            if ln.startswith("stat::number_of_executed_units:"):
                execs = int(ln.split(":")[-1])
        ctx.count("fuzz_executions", execs)
        ctx.case(("fuzz", j), nontrivial=True, n=max(execs, 1))
        if p.returncode != 0:
            path = next((t for t in err.split() if t.startswith(art)), None)
            ctx.violation("C06:c-heap-fuzzer-crash", f"libFuzzer job {j}: " + _first_report(err),
                          {"kind": "fuzz", "artifact": path, "report": err[-1500:]})


def main(ctx):
    ctx.rule = ("case = one protocol-respecting history (push only when the handler has no live event, trash only live "
                "events, get at any time; 1..3000 handlers, times with equal quotients / equal remainders / exact ties / "
                "quotients up to 2^52 / infinite pushes, optional counters poked to 2^32-k, pickle or dill round trips at "
                "random points) executed on the real HeapScheduler, the real ListScheduler and a dict model; every get is "
                "compared with the model's exact lexicographic minimum; plus 'parked' cases: the C array filled to "
                "size-3..size+1 for size 64..2048 and the counter-overflow path (delete_events) forced at that fill; the "
                "same under an ASan+UBSan build of heap.c; plus C-driver runs (ASan+UBSan, valgrind) and libFuzzer with an "
                "in-driver shadow model; non-trivial = histories with >= 2 handlers, parked cases, driver seeds")
    ctx.assumptions = ["handler counters near 2^32 are installed by writing HeapScheduler._minimal_valid_counter before "
                       "the handler's first push (equivalent to 2^32-k earlier trashes; 2^32 real trashes are out of budget)",
                       "ASan red zones miss non-adjacent overflows"]
    nsh = ctx.pick(12, 48)
    hist, maxops = ctx.pick((60, 4000), (250, 12000))
    jobs = [{"seed": ctx.seed, "shard": s, "histories": hist, "maxops": maxops, "flavor": "plain"} for s in range(nsh)]
    ctx.run_workers("vf.monitors.c06:shard", jobs, timeout=1800)
    # the same workload under ASan+UBSan (real Python class, real callback path)
    nsa = ctx.pick(4, 16)
    jobs = [{"seed": ctx.seed, "shard": 1000 + s, "histories": ctx.pick(15, 60), "maxops": maxops, "flavor": "asan"}
            for s in range(nsa)]

    def classify(job, rc, err):
        if rc in (97, 98) or "AddressSanitizer" in err or "runtime error:" in err:
            return ("C06:c-heap-memory-error", "ASan/UBSan report under the real HeapScheduler: " + _first_report(err),
                    {"kind": "asan_history", "job": job, "report": err[-2000:]})
        return None

    ctx.run_workers("vf.monitors.c06:shard", jobs, timeout=1800, env=native.asan_env(), classify_failure=classify)
    # C drivers
    run_driver(ctx, "asan", range(ctx.seed * 100, ctx.seed * 100 + ctx.pick(3, 12)), ctx.pick(300000, 3000000), 900)
    run_driver(ctx, "valgrind", range(ctx.seed * 100, ctx.seed * 100 + ctx.pick(1, 4)), ctx.pick(30000, 300000), 1800)
    if not ctx.quick:
        run_fuzzer(ctx, 120, 8)
        ctx.require("fuzz_executions", 10000)
    ctx.require("gets_checked", 5000)
    ctx.require("lazy_deletions_below_root", 100)
    ctx.require("histories_crossing_reallocation", 20)
    ctx.require("counter_wraparounds", 30)
    ctx.require("parked_overflows", 30)
    ctx.require("pickle_roundtrips", 20)
    ctx.require("histories_asan", 10)
    ctx.require("driver_asan_runs", 1)
    ctx.require("driver_valgrind_runs", 1)
    ctx.require("empty_scheduler_errors", 10)


def replay(acc, w):
    x = w["witness"]
    if x.get("kind") == "history":
        sub = core.rng_for("C06", x["seed"], "hist", x["shard"], x["flavor"], x["k"])
        wrap = {int(k): v for k, v in x["wrap"].items()} if x.get("wrap") else None
        run_history(acc, sub, x["nh"], x["nops"], x["style"], set(x["pickle_at"]), wrap, x)
    elif x.get("kind") == "grow_drain_pickle":
        for s in range(5):
            grow_drain_pickle(acc, core.rng_for("C06", s, "replay"), x["n"], x["m"], x["how"])
    elif x.get("kind") == "parked_overflow":
        for s in range(20):
            parked_overflow(acc, core.rng_for("C06", s, "replay"), x["size"], x["delta"], "mixed", x.get("no_entries", False))
    else:
        acc.notes.append("replay of driver/fuzzer/asan witnesses: rerun the command recorded in the witness")
