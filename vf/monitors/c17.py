"""C17 - samples and end of run at nominal times on a fully time-sliced state.

Offline/online checker over the write log of real runs + direct drive of the fixed-interval handlers for large k."""
import math
from fractions import Fraction as F

from vf import core
from vf.monitors import c07, suite

LEVEL = "exploration"
PROPS = ("C17",)
replay_run = c07.replay


def drive(acc, prop="C17", seed=0, shard=0, handlers=4, steps=100000):
    """k-th candidate time of a bare FixedIntervalSampling/DumpingEventHandler vs k*interval, for k up to `steps`."""
    from vf.jf import init_setting
    from jellyfysh.event_handler.fixed_interval_sampling_event_handler import FixedIntervalSamplingEventHandler
    from jellyfysh.event_handler.fixed_interval_dumping_event_handler import FixedIntervalDumpingEventHandler
    init_setting(3, [1.0] * 3)
    rng = core.rng_for(prop, seed, "drive", shard)
    for i in range(handlers):
        dt = rng.choice([0.56789, 0.1, 1.0, 3.3, 1 / 3, 2.6789, 10.01, 1e-3, rng.uniform(0.01, 5.0)])
        first0 = rng.random() < 0.5
        kind = rng.choice(["sampling", "sampling", "dumping"])
        h = FixedIntervalSamplingEventHandler(dt, "x", first0) if kind == "sampling" else FixedIntervalDumpingEventHandler(dt, "x")
        if kind == "dumping":
            first0 = False
        half_ulp = F(math.ulp(1.0 + dt)) / 2
        fdt = F(dt)
        worst = F(0)
        prev = None
        for k in range(steps):
            t = h.send_event_time()
            q, r = t.quotient, t.remainder
            got = F(q) + F(r)
            nominal = fdt * (k if first0 else k + 1)
            err = abs(got - nominal)
            if not (q == math.floor(q) and 0.0 <= r < 1.0) or got < 0:
                acc.violation("C17:sample-time-not-a-normalised-time", f"{kind} interval {dt!r} first0={first0}: candidate "
                              f"{k} is Time({q!r}, {r!r})", {"kind": "drive", "dt": dt.hex(), "first0": first0, "k": k})
                break
            if err > (k + 2) * half_ulp:
                acc.violation("C17:sample-time-off-nominal", f"{kind} interval {dt!r} first0={first0}: candidate {k} at "
                              f"{float(got)!r}, nominal {float(nominal)!r}, error {float(err):.3e} > (k+2)*ulp/2",
                              {"kind": "drive", "dt": dt.hex(), "first0": first0, "k": k})
                break
            if prev is not None and not got > prev:
                acc.violation("C17:sample-times-not-increasing", f"{kind} interval {dt!r}: candidate {k} {float(got)!r} <= "
                              f"previous", {"kind": "drive", "dt": dt.hex(), "first0": first0, "k": k})
                break
            prev = got
            if err > worst:
                worst = err
        acc.case(("drive", kind, dt, first0), nontrivial=True)
        acc.count("driven_candidate_times", steps)
        acc.maxi("max_driven_error_in_half_ulps", float(worst / half_ulp))
        acc.maxi("max_driven_k", steps)
        if shard == 0 and i < 2:
            acc.sample({"kind": kind, "interval": dt, "first_event_time_zero": first0, "steps": steps,
                        "worst_error": float(worst)})


def gen_jobs(ctx, n, gen_ev):
    rng = core.rng_for("C17", ctx.seed, "gen")
    jobs = []
    for i in range(n):
        spec = suite.gen_molecule_spec(rng) if i % 3 == 2 else suite.gen_spec(rng, rng.choice(["soft", "hard", "soft_cells"]))
        p = spec["params"]
        dt = rng.choice([0.0731, 0.2113, 0.37, 0.9137, 1 / 7, rng.uniform(0.05, 1.5)])
        nsamp = rng.randint(8, 60)
        # end time strictly between two sampling times (exact ties are not generated)
        p["end"] = dt * (nsamp + rng.uniform(0.2, 0.8))
        p["sampling_interval"] = dt
        p["first_sample_zero"] = rng.random() < 0.5 if spec["kind"] == "spheres" else False
        if spec["kind"] == "spheres" and i % 5 == 3:
            # samples written by the multi-process mediator (sampling out-states may be computed ahead of time there)
            p["mediator"] = "multi_process_mediator"
            p["cores"] = rng.choice([3, 4, 8])
        jobs.append({"spec": spec, "props": list(PROPS), "seed": ctx.seed * 1000 + i, "max_events": gen_ev,
                     "label": f"gen-{spec['family']}-{i}"})
    return jobs


def main(ctx):
    ctx.rule = ("case = (a) one instrumented run (shipped configurations run to a shortened end time, generated systems with "
                "random sampling interval, end time between two sampling times, chain time, first-sample-at-zero flag, point "
                "masses and molecules in leaf and root mode): at EVERY write the committed time is compared with k*interval "
                "in exact arithmetic and the very object handed to the output handler is checked unit by unit (time stamp == "
                "sample time, position on the pre-event trajectory); at the end: last commit is the end-of-run handler at the "
                "configured time and the number of writes is the number of sampling times before it; (b) direct drive of bare "
                "sampling/dumping handlers for up to 10^6 consecutive candidates; distinct = (scenario, seed) + driven handlers")
    ctx.assumptions = ["per-step tolerance (k+2)*ulp(1+interval)/2, independent of the quotient",
                       "scenarios with a sampling time exactly at the end time are not generated"]
    sh_end = ctx.pick(60.0, 400.0)
    jobs = []
    for name in suite.scenario.SHIPPED:
        if name in suite.scenario.SLOW and ctx.quick and name not in ("coulomb_atoms/cell_bounded",):
            continue
        end = sh_end if name not in suite.scenario.SLOW else sh_end / 5
        if name.startswith("hard_disk_dipoles/hard"):
            end = 45.0 if ctx.quick else 200.0
        jobs.append({"spec": {"kind": "shipped", "name": name, "end": end}, "props": list(PROPS), "seed": ctx.seed * 1000,
                     "max_events": None, "label": name})
    jobs += gen_jobs(ctx, ctx.pick(64, 300), None)
    suite.run_suite(ctx, PROPS, jobs, timeout=ctx.pick(900, 3000))
    nsh = ctx.pick(8, 32)
    ctx.run_workers("vf.monitors.c17:drive", [{"seed": ctx.seed, "shard": s, "handlers": ctx.pick(3, 6),
                                               "steps": ctx.pick(100000, 1000000)} for s in range(nsh)])
    ctx.require("sample_times_checked", 2000)
    ctx.require("sampled_states_with_moving_units", 2000)
    ctx.require("runs_reaching_end", 40)
    ctx.require("sample_counts_checked", 40)
    ctx.require("driven_candidate_times", 1000000)


def replay(acc, w):
    x = w["witness"]
    if x.get("kind") == "drive":
        drive(acc, seed=0, shard=0, handlers=0)
        from vf.jf import init_setting
        from jellyfysh.event_handler.fixed_interval_sampling_event_handler import FixedIntervalSamplingEventHandler
        init_setting(3, [1.0] * 3)
        dt = float.fromhex(x["dt"])
        h = FixedIntervalSamplingEventHandler(dt, "x", x["first0"])
        for k in range(x["k"] + 1):
            t = h.send_event_time()
        got = F(t.quotient) + F(t.remainder)
        nominal = F(dt) * (x["k"] if x["first0"] else x["k"] + 1)
        if abs(got - nominal) > (x["k"] + 2) * F(math.ulp(1.0 + dt)) / 2 or got < 0:
            acc.violation("C17:sample-time-off-nominal", f"candidate {x['k']} at {float(got)!r}, nominal {float(nominal)!r}", x)
    else:
        x = dict(x)
        w = dict(w, witness=dict(x, event_index=10 ** 9))
        replay_run(acc, w)
