from vf.monitors import c07, suite

LEVEL = "exploration"
PROPS = ("C08",)
replay = c07.replay
RULE = c07.RULE.replace("at EVERY commit the full global state before and after is snapshot by value and judged",
                        "the in-state of every candidate is snapshot by value at the entry of send_event_time and compared, at "
                        "the commit of that interaction / cell-veto handler, with the then-current global state (same velocity, "
                        "same straight line, same position for resting units)")


def required(ctx):
    ctx.require("interaction_commits_checked", 10000)
    ctx.require("commits_outside_statement", 1000)
    ctx.require("scenarios_run", 25)


def main(ctx):
    c07.main(ctx, PROPS, RULE, required)
    tc = ctx.counters.get("interaction_commits_by_tagger_class", {})
    for cls in ("FactorTypeMapInStateTagger", "CellVetoTagger", "CellBoundingPotentialTagger", "ExcludedCellsTagger"):
        if tc.get(cls, 0) < 20:
            ctx.inconclusive.append(f"fewer than 20 interaction commits observed for tagger class {cls}")
