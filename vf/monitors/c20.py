"""C20 - the multi-process mediator commits the same events as the single-process mediator.

Twin-process differential with imposed per-handler random streams + seeded delay injection in the workers (schedule
diversity) + process-leak and bounded-progress (zero-CPU) monitors."""
import json
import os
import shutil
import subprocess
import time
from concurrent.futures import ThreadPoolExecutor

from vf import core
from vf.monitors import suite
from vf.monitors.c19 import first_diff, brief, norm

LEVEL = "exploration"


def tree_cpu(pid):
    """Total CPU ticks of a process and all its descendants (from /proc)."""
    procs = {}
    for p in os.listdir("/proc"):
        if p.isdigit():
            try:
                with open(f"/proc/{p}/stat") as f:
                    fields = f.read().rsplit(")", 1)[1].split()
                procs[int(p)] = (int(fields[1]), int(fields[11]) + int(fields[12]))
            except (OSError, IndexError, ValueError):
                pass
    total, todo, seen = 0, [pid], set()
    while todo:
        q = todo.pop()
        if q in seen or q not in procs:
            continue
        seen.add(q)
        total += procs[q][1]
        todo += [c for c, (pp, _) in procs.items() if pp == q]
    return total, len(seen)


def launch(mode, spec, timeout):
    """Returns (result, status) with status in ok / watchdog / deadlock / failed:<text>."""
    env = dict(os.environ, PYTHONHASHSEED="0")
    cmd = ["setarch", "-R", core.PY, "-m", "vf.twin", mode, json.dumps(spec)]
    p = subprocess.Popen(cmd, cwd=core.HOME, env=env, stdout=subprocess.PIPE, stderr=subprocess.PIPE,
                         start_new_session=True)
    t0 = time.time()
    last_cpu, idle_since = None, None
    status = "ok"
    while p.poll() is None:
        time.sleep(0.5)
        cpu, n = tree_cpu(p.pid)
        if cpu == last_cpu:
            idle_since = idle_since or time.time()
            if time.time() - idle_since > 10.0:
                status = "deadlock"      # nobody in the process tree consumed CPU for 10 s while the run is unfinished
                break
        else:
            last_cpu, idle_since = cpu, None
        if time.time() - t0 > timeout:
            status = "watchdog"
            break
    if status != "ok":
        try:
            os.killpg(p.pid, 9)
        except OSError:
            pass
        p.wait()
        return None, status
    if not os.path.exists(spec["out"]):
        return None, "failed:" + p.stderr.read().decode(errors="replace")[-500:]
    with open(spec["out"]) as f:
        return json.load(f), "ok"


def scenarios(ctx):
    """Configurations whose out-state computation draws no random numbers (direct-inversion pair handlers, hard cores, cell
    boundaries, sampling, end of chain)."""
    rng = core.rng_for("C20", ctx.seed, "scn")
    out = []
    fams = ["soft", "hard", "soft_cells", "hard_cells", "soft", "molecules"]
    for i in range(ctx.pick(12, 36)):
        fam = fams[i % len(fams)]
        spec = suite.gen_molecule_spec(rng, switching=False) if fam == "molecules" else suite.gen_spec(rng, fam)
        p = spec["params"]
        p["end"] = rng.choice([6.1, 9.3, 12.9])
        if spec["kind"] == "spheres" and p["n"] > 14:
            p["n"] = 14
            if p.get("positions"):
                p["positions"] = p["positions"][:14]
            p["initial_active"] = min(p.get("initial_active", 0), 13)
        out.append(spec)
    out.append({"kind": "shipped", "name": "hard_disk_dipoles/single_hard_disk_dipole", "end": 60.0})
    # 81 dipoles read from 3-decimal .pdb coordinates: exact ties between a dipole-bond and a sphere candidate occur within
    # the first 20 log entries (regression scenario of the repaired defect C20:tied-candidates-committed-in-arrival-order)
    out.append({"kind": "shipped", "name": "hard_disk_dipoles/hard_disk_dipoles_cells", "end": ctx.pick(2.0, 8.0)})
    if not ctx.quick:
        out.append({"kind": "shipped", "name": "hard_disk_dipoles/hard_disk_dipoles", "end": 8.0})
    # hard disks on a dyadic lattice: the moving disk meets two disks placed symmetrically about its line of motion at
    # bit-identical times, leg after leg; the tied candidates belong to handlers of ONE pool, whose order of activation
    # need not be their order of construction (the runs end after the first tied collision: a disk resting in contact with
    # two others is outside the hard-sphere handler's own precondition once it is pushed again, and which of the tied
    # events comes first depends on the memory layout, so longer runs abort with a SchedulerError in some environments)
    for k in range(ctx.pick(2, 6)):
        pos = [[0.1, 0.5], [0.6, 0.625], [0.6, 0.375], [1.1, 0.75], [1.1, 0.5], [1.1, 0.25],
               [1.6, 0.875], [1.6, 0.625], [1.6, 0.375], [1.6, 0.125]]
        if k % 2:
            pos = [[(x + 0.25 * k) % 2.0, y] for x, y in pos]
        out.append({"kind": "spheres", "family": "tie_lattice",
                    "params": {"dim": 2, "lengths": [2.0, 1.0], "beta": 1.0, "n": 10, "potential": "hard_sphere", "radius": 0.1,
                               "scheduler": "heap_scheduler" if k % 2 else "list_scheduler", "sampling_interval": 0.731,
                               "chain_time": 0.7 * (1 + 0.013 * k), "speed": 1.0, "end": 0.55, "initial_direction": 0,
                               "initial_active": [0, 2, 4, 7, 1, 9][k], "positions": pos, "eoc": "periodic"}})
    return out


def with_mediator(scn, mediator, cores):
    scn = json.loads(json.dumps(scn))
    if scn["kind"] == "spheres":
        scn["params"]["mediator"] = mediator
        scn["params"]["cores"] = cores
    elif scn["kind"] == "molecules":
        scn["multi_process_cores_generated"] = cores if mediator == "multi_process_mediator" else 0
    elif mediator == "multi_process_mediator":
        scn["multi_process_cores"] = cores
    return scn


def run_scenario(ctx, idx, scn, schedules, max_events, timeout):
    base = os.path.join(core.WORK, f"c20-{os.getpid()}-{idx}")
    shutil.rmtree(base, ignore_errors=True)
    res = []
    label = scn.get("name") or scn.get("family") or scn["kind"]
    seed = ctx.seed * 100 + idx
    try:
        wr = os.path.join(base, "ref")
        os.makedirs(wr)
        ref, st = launch("sp_ref", {"scenario": with_mediator(scn, "single_process_mediator", 0), "workdir": wr, "seed": seed,
                                    "out": os.path.join(wr, "log.json"), "max_events": max_events}, timeout)
        if ref is None or ref["error"]:
            return [("inconclusive", f"{label}: reference run failed: {st} {(ref or {}).get('error', '')[:300]}")]
        lr = norm(ref["log"])
        res.append(("count", "reference_runs", 1))
        res.append(("count", "reference_commits", sum(1 for e in lr if e[0] == "commit")))

        def one(k):
            cores, delays, invert = schedules[k][:3]
            rel, slow = (schedules[k] + (0, False))[3:5]
            w = os.path.join(base, f"mp{k}")
            os.makedirs(w, exist_ok=True)
            spec = {"scenario": with_mediator(scn, "multi_process_mediator", cores), "workdir": w, "seed": seed,
                    "out": os.path.join(w, "log.json"), "max_events": max_events, "delays": delays, "invert": invert,
                    "schedule": k, "after_release_ms": rel, "slow_out_states": slow, "debug_logging": k % 5 == 4}
            return k, launch("mp", spec, timeout)
        with ThreadPoolExecutor(3) as ex:
            for k, (R, st) in ex.map(one, range(len(schedules))):
                cores, delays, invert = schedules[k][:3]
                wit = {"scenario": scn, "seed": seed, "cores": cores, "delays": delays, "invert": invert, "schedule": k,
                       "after_release_ms": (schedules[k] + (0, False))[3], "slow_out_states": (schedules[k] + (0, False))[4]}
                res.append(("case", (label, seed, k)))
                if st == "deadlock":
                    res.append(("violation", "C20:deadlock", f"[{label}, {cores} cores, schedule {k}] no process of the run "
                                                             f"consumed CPU for 10 s while the run was unfinished", wit))
                    continue
                if R is None:
                    res.append(("inconclusive", f"{label} schedule {k}: {st}"))
                    continue
                res.append(("count", "schedules_run", 1))
                if k % 5 == 4:
                    res.append(("count", "schedules_run_with_debug_logging", 1))
                if R["error"]:
                    res.append(("violation", "C20:multi-process-run-raises",
                                f"[{label}, {cores} cores, schedule {k}] {R['error'][:400]}", wit))
                    continue
                d = first_diff(lr, norm(R["log"]))
                tie = False
                if d and isinstance(d[1], list) and isinstance(d[2], list) and d[1][0] == d[2][0] == "commit" \
                        and d[1][2] == d[2][2] and d[1][2] is not None:
                    # mechanism classifier: the two runs commit DIFFERENT events that carry bit-identical candidate times
                    # (an exact tie between two handlers); which of them the scheduler returns first depends on the order
                    # in which the candidates were pushed, i.e. on the arrival order in the multi-process mediator
                    t = d[1][2]
                    ncommits = sum(1 for e in lr[:d[0]] if e[0] == "commit")
                    # candidates pushed in the single-process run BEFORE the divergent commit with exactly this time
                    tied = {h for n, h, tt in ref.get("pushes", []) if tt == t and n <= ncommits}
                    tie = len(tied) >= 2
                if d and tie:
                    res.append(("violation", "C20:tied-candidates-committed-in-arrival-order",
                                f"[{label}, {cores} cores, schedule {k}] log entry {d[0]}: two handlers hold candidates with the "
                                f"bit-identical time {d[1][2]}; multi-process commits {d[2][1]} first, single-process {d[1][1]}",
                                dict(wit, index=d[0])))
                elif d:
                    res.append(("violation", "C20:commit-log-differs-from-single-process",
                                f"[{label}, {cores} cores, schedule {k}] log entry {d[0]}: multi-process {brief(d[2])}  vs  "
                                f"single-process {brief(d[1])}", dict(wit, index=d[0])))
                else:
                    res.append(("count", "schedules_identical", 1))
                if R["children_alive_after_post_run"]:
                    res.append(("violation", "C20:worker-processes-left-behind",
                                f"[{label}, {cores} cores] {len(R['children_alive_after_post_run'])} worker processes alive "
                                f"after post_run()", wit))
                else:
                    res.append(("count", "clean_shutdowns", 1))
                    res.append(("count", "workers_started", R["children_before_post_run"] or 0))
                res.append(("order", R["arrival_signature"]))
                res.append(("count", "wait_calls", R["wait_calls"]))
                res.append(("count", "wait_calls_with_several_ready", R["wait_calls_with_several_ready"]))
                ncommit = sum(1 for e in lr if e[0] == "commit")
                res.append(("count", "out_states_computed_by_workers", R["out_states_computed"] or 0))
                res.append(("count", "out_states_precomputed_and_discarded", max(0, (R["out_states_computed"] or 0) - ncommit)))
        res.append(("sample", {"scenario": label, "seed": seed, "schedules": schedules, "commits": len(lr)}))
    finally:
        shutil.rmtree(base, ignore_errors=True)
    return res


def main(ctx):
    ctx.rule = ("case = (scenario, schedule): a schedule is (number of cores in {2,3,4,8,16}, seeded delays injected in the "
                "worker processes before each result is sent, optional bias delaying every other handler); the multi-process "
                "run's commit/sample log is compared bit for bit with the single-process run of the same scenario in which "
                "every handler owns the same private random stream; scenarios restricted to handlers whose out-state draws no "
                "random numbers (generated soft/hard spheres with and without cells, molecules, hard-disk dipoles); distinct = "
                "(scenario, schedule); the evidence counts distinct arrival orders seen by the mediator")
    ctx.assumptions = ["the premise 'same per-handler random streams' is created by the harness: CPython re-seeds random in every "
                       "forked child, so each worker installs its handler's generator state on its first call",
                       "schedules are sampled, not enumerated", "a wall-clock timeout alone is inconclusive; a deadlock verdict "
                       "needs 10 s of zero CPU consumption of the whole process tree"]
    scns = scenarios(ctx)
    rng = core.rng_for("C20", ctx.seed, "sched")
    nsched = ctx.pick(5, 16)
    orders = set()
    futs = []
    with ThreadPoolExecutor(ctx.pick(4, 5)) as ex:
        for i, s in enumerate(scns):
            schedules = [(rng.choice([2, 3, 4, 8, 16]), rng.choice([0, 1, 1, 3]), rng.random() < 0.4) for _ in range(nsched)]
            schedules[0] = (2, 0, False)
            # worker descheduled right after releasing the semaphore (up to 40 ms); slow pre-computed out-states (> 0.1 s)
            schedules[1] = (rng.choice([3, 4, 8]), 1, False, 40, False)
            schedules[2] = (rng.choice([4, 8, 16]), 0, False, 0, True)
            if len(schedules) > 4:
                schedules[3] = (rng.choice([2, 3]), 1, True, 25, False)
            futs.append(ex.submit(run_scenario, ctx, i, s, schedules, ctx.pick(400, 3000), ctx.pick(300, 1200)))
        for f in futs:
            for r in f.result():
                if r[0] == "count":
                    ctx.count(r[1], r[2])
                elif r[0] == "case":
                    ctx.case(r[1], nontrivial=True)
                elif r[0] == "violation":
                    ctx.violation(r[1], r[2], r[3])
                elif r[0] == "inconclusive" and "reference run failed" in r[1]:
                    # no single-process run to compare with (the scenario itself is outside what the code accepts in this
                    # environment): that scenario decides nothing; tolerated for a small part of the workload only
                    ctx.count("scenarios_without_reference_run")
                    ctx.notes.append(r[1][:400])
                elif r[0] == "inconclusive":
                    ctx.inconclusive.append(r[1])
                elif r[0] == "sample":
                    ctx.sample(r[1], limit=6)
                elif r[0] == "order" and r[1]:
                    orders.add(r[1])
    ctx.counters["distinct_arrival_orders"] = len(orders)
    if ctx.counters.get("scenarios_without_reference_run", 0) > max(1, len(scns) // 10):
        ctx.inconclusive.append(f"{ctx.counters['scenarios_without_reference_run']} of {len(scns)} scenarios had no "
                                f"single-process reference run")
    ctx.require("schedules_run", 20)
    ctx.require("schedules_identical", 20)
    ctx.require("distinct_arrival_orders", 10)
    ctx.require("clean_shutdowns", 20)
    ctx.require("out_states_precomputed_and_discarded", 50)
    ctx.require("wait_calls_with_several_ready", 50)


def replay(acc, w):
    x = w["witness"]

    class C(object):
        seed = 0
    sched = [(x["cores"], x["delays"], x["invert"], x.get("after_release_ms", 0), x.get("slow_out_states", False))] * 3
    for r in run_scenario(C(), 998, x["scenario"], sched, 3000, 600):
        if r[0] == "violation":
            acc.violation(r[1], r[2], r[3])
