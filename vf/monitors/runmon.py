"""Run-time invariant monitors attached to the probe bus (C07, C08, C09, C11, C12, C13, C17) + the shared scenario runner."""
import math
import os
import shutil

from vf import core, probe
from vf.probe import tless, tsub

INTERACTION_TAGGERS = ("FactorTypeMapInStateTagger", "CellVetoTagger", "CellBoundingPotentialTagger",
                       "ExcludedCellsTagger", "SurplusCellsTagger")


def lengths():
    from jellyfysh.setting import hypercuboid_setting
    return tuple(hypercuboid_setting.system_lengths)


def circ(d, L):
    d = math.fmod(d, L)
    if d < 0:
        d += L
    return min(d, L - d)


def advance(u, T):
    """Position of snapshot unit u = (pos, vel, stamp, charge) advanced along its recorded velocity to time T."""
    pos, vel, stamp, _ = u
    if vel is None or stamp is None:
        return pos
    dt = tsub(T, stamp)
    return tuple(p + v * dt for p, v in zip(pos, vel))


def real_class_name(obj):
    for c in type(obj).__mro__:
        if "(" not in c.__name__:
            return c.__name__
    return type(obj).__name__


class Base(object):
    prop = "C00"

    def __init__(self, acc, label):
        self.acc = acc
        self.label = label

    def viol(self, bus, key, what, extra=None):
        w = {"scenario": getattr(bus, "spec", None), "seed": getattr(bus, "seed", None), "event_index": bus.n_events,
             "handler": bus.hname.get(id(bus.last_returned)), "time": bus.last_pushed.get(id(bus.last_returned))}
        if extra:
            w.update(extra)
        self.acc.violation(f"{self.prop}:{key}", f"[{self.label} event {bus.n_events}] {what}", w)


# -- C07 ---------------------------------------------------------------------------------------------------------------
class C07(Base):
    """Continuous motion, one chain, conservation - evaluated at every commit on the full global state."""
    prop = "C07"

    def on_start(self, bus):
        self.L = lengths()
        self.tol = [1e-9 * x for x in self.L]
        self.before = None
        self.speed0 = None
        s, tree = bus.full_state(with_tree=True)
        self.ids = set(s)
        self.charges = {k: v[3] for k, v in s.items()}
        self.leaves = {k for k, t in tree.items() if not t[2]}
        self.parent = {k: t[0] for k, t in tree.items()}
        self.members = {}
        for k in self.leaves:
            self.members.setdefault(k[:1], set()).add(k)
        self.Tprev = None
        self.started = False

    def before_commit(self, bus, h, T, out_state):
        self.before = bus.full_state()

    def after_commit(self, bus, h, T, out_state):
        acc = self.acc
        S, S2 = self.before, bus.full_state()
        acc.count("commits_checked")
        cname = real_class_name(h)
        acc.count_handler = getattr(acc, "count_handler", {})
        acc.counters.setdefault("commits_by_handler_class", {})
        acc.counters["commits_by_handler_class"][cname] = acc.counters["commits_by_handler_class"].get(cname, 0) + 1
        if T is None:
            self.viol(bus, "commit-without-candidate-time", f"{cname} committed without having pushed a time")
            return
        if self.Tprev is not None and tless(T, self.Tprev):
            self.viol(bus, "event-time-decreases", f"{cname} committed at {T} after an event at {self.Tprev}")
        self.Tprev = T
        if set(S2) != self.ids:
            self.viol(bus, "identities-changed", f"identifier set changed: {sorted(set(S2) ^ self.ids)[:4]}")
            return
        L = self.L
        for k, a in S2.items():
            b = S[k]
            if a[3] != self.charges[k]:
                self.viol(bus, "charge-changed", f"unit {k}: charge {self.charges[k]} -> {a[3]}")
            for d, x in enumerate(a[0]):
                if not (0.0 <= x < L[d]):
                    self.viol(bus, "position-outside-box", f"unit {k} after {cname}: position[{d}] = {x!r}, L = {L[d]!r}")
            if b[1] is None and a[1] is None:
                if a[0] != b[0]:
                    self.viol(bus, "inactive-unit-moved", f"unit {k} has no velocity before and after {cname} but moved "
                                                          f"{b[0]} -> {a[0]}")
                continue
            xa, xb = advance(a, T), advance(b, T)
            for d in range(len(L)):
                if circ(xa[d] - xb[d], L[d]) > self.tol[d]:
                    self.viol(bus, "discontinuous-motion",
                              f"unit {k} at {cname}: trajectory before the event gives x[{d}]={xb[d]!r} at T={T}, "
                              f"state after the event gives {xa[d]!r} (L={L[d]})",
                              {"unit": list(k), "before": b, "after": a})
                    break
            else:
                acc.count("unit_continuity_checks")
        # exactly one moving chain
        moving = [k for k in self.leaves if S2[k][1] is not None]
        if not moving:
            if self.started:
                self.viol(bus, "no-moving-unit", f"nothing moves after {cname}")
            return
        self.started = True
        v0 = S2[moving[0]][1]
        speed = math.sqrt(sum(c * c for c in v0))
        if self.speed0 is None:
            self.speed0 = speed
        # (the sequential-direction end-of-chain handler rotates the previous velocity, so one rounding per rotation compounds:
        # 1e-16 relative per event is allowed on top of 1e-12)
        if abs(speed - self.speed0) > (1e-12 + 2e-16 * bus.n_events) * self.speed0:
            self.viol(bus, "speed-changed", f"speed {speed!r} after {cname}, initial speed {self.speed0!r}")
        for k in moving[1:]:
            v = S2[k][1]
            if any(abs(v[d] - v0[d]) > (1e-12 + 2e-16 * bus.n_events) * self.speed0 for d in range(len(v0))):
                self.viol(bus, "several-velocities", f"moving point masses {moving[0]} and {k} have velocities {v0} / {v}")
        if len(moving) > 1:
            roots = {k[:1] for k in moving}
            if len(roots) != 1 or set(moving) != self.members[next(iter(roots))]:
                self.viol(bus, "more-than-one-chain", f"moving point masses after {cname}: {sorted(moving)}")
            else:
                acc.count("commits_with_whole_composite_moving")


# -- C12 -----------------------------------------------------------------------------------------------------------------
class C12(Base):
    prop = "C12"

    def on_start(self, bus):
        self.L = lengths()
        s, tree = bus.full_state(with_tree=True)
        self.tree = tree
        self.roots = [k for k, t in tree.items() if t[0] is None and t[2]]
        self.check(bus, s, (0.0, 0.0), "initial state")

    def after_commit(self, bus, h, T, out_state):
        if T is None:
            return
        self.check(bus, bus.full_state(), T, real_class_name(h))

    def check(self, bus, S, T, cname):
        L = self.L
        dim = len(L)
        for r in self.roots:
            kids = self.tree[r][2]
            if any(self.tree[k][2] for k in kids):
                continue  # only two node levels exist in this version
            self.acc.count("composite_checks")
            w = [self.tree[k][1] for k in kids]
            vels = [S[k][1] for k in kids]
            rv = S[r][1]
            anym = any(v is not None for v in vels)
            want = [sum(w[i] * (vels[i][d] if vels[i] is not None else 0.0) for i in range(len(kids))) for d in range(dim)]
            scale = max(1e-300, max(abs(c) for v in vels if v is not None for c in v) if anym else 1.0)
            if rv is None:
                if anym and any(abs(c) > 1e-12 * scale for c in want):
                    self.viol(bus, "root-velocity-missing", f"{cname}: composite {r} has no velocity but members move: {vels}")
            else:
                if not anym:
                    self.viol(bus, "root-velocity-without-moving-member",
                              f"{cname}: composite {r} has velocity {rv} (time stamp {S[r][2]}) but no member moves")
                elif any(abs(rv[d] - want[d]) > 1e-12 * scale for d in range(dim)):
                    self.viol(bus, "root-velocity-not-weighted-sum", f"{cname}: composite {r} velocity {rv}, weighted sum of "
                                                                     f"members {want}")
                else:
                    self.acc.count("moving_composite_checks")
            rp = probe_adv(S[r], T)
            off = [0.0] * dim
            for i, k in enumerate(kids):
                kp = probe_adv(S[k], T)
                for d in range(dim):
                    s = math.fmod(kp[d] - rp[d], L[d])
                    if s > L[d] / 2:
                        s -= L[d]
                    elif s < -L[d] / 2:
                        s += L[d]
                    off[d] += w[i] * s
            for d in range(dim):
                if abs(off[d]) > 1e-9 * L[d]:
                    self.viol(bus, "root-not-at-barycentre",
                              f"{cname}: composite {r}: stored position advanced to T={T} is off the weighted barycentre of "
                              f"its point masses by {off[d]:.3e} in direction {d} (L={L[d]})",
                              {"root": S[r], "members": [S[k] for k in kids]})
                    break


def probe_adv(u, T):
    return advance(u, T)


# -- C13 (run part) ------------------------------------------------------------------------------------------------------
class C13(Base):
    """Between two commits the global state does not change; after a commit exactly the out-state values are read back."""
    prop = "C13"

    def on_start(self, bus):
        self.after = bus.full_state()

    def before_commit(self, bus, h, T, out_state):
        now = bus.full_state()
        self.acc.count("between_commit_comparisons")
        if now != self.after:
            bad = [k for k in now if now[k] != self.after.get(k)]
            self.viol(bus, "global-state-changed-between-commits",
                      f"unit {bad[0]} changed without a commit: {self.after.get(bad[0])} -> {now[bad[0]]} "
                      f"(next committing handler {real_class_name(h)})", {"unit": list(bad[0])})
        self.pre = now
        self.out = probe.snap_branches(out_state) if out_state is not None else {}

    def after_commit(self, bus, h, T, out_state):
        now = bus.full_state()
        for k, v in self.out.items():
            self.acc.count("readback_checks")
            if now.get(k) != v:
                self.viol(bus, "commit-does-not-read-back", f"unit {k}: out-state {v}, global state {now.get(k)}")
        for k, v in now.items():
            if k not in self.out and v != self.pre[k]:
                self.viol(bus, "commit-changed-uninvolved-unit", f"unit {k} is not in the out-state of "
                                                                 f"{real_class_name(h)} but changed {self.pre[k]} -> {v}")
        self.after = now


# -- C08 -----------------------------------------------------------------------------------------------------------------
class C08(Base):
    prop = "C08"

    def on_start(self, bus):
        self.L = lengths()

    def on_get(self, bus, h):
        # shadow of the scheduler's contents kept at the mediator boundary (push / trash list / get): the handler returned
        # must own a candidate that was pushed and not trashed since, and no other such candidate may be earlier
        t = bus.live.get(id(h))
        self.acc.count("scheduler_returns_checked")
        if t is None:
            self.viol(bus, "trashed-candidate-returned-by-scheduler",
                      f"the scheduler returned {real_class_name(h)}, whose candidate was trashed (or already returned) before")
            return
        m = min(bus.live.values())
        if t != m:
            self.viol(bus, "scheduler-returned-later-candidate",
                      f"the scheduler returned {real_class_name(h)} with candidate time {t} although a candidate at {m} is live")

    def before_commit(self, bus, h, T, out_state):
        t = bus.tagger_of.get(id(h))
        tcls = real_class_name(t) if t is not None else "?"
        if tcls not in INTERACTION_TAGGERS:
            self.acc.count("commits_outside_statement")
            return
        snap = bus.last_in_state.get(id(h))
        if snap is None or T is None:
            self.viol(bus, "interaction-commit-without-in-state", f"{real_class_name(h)} committed without a recorded in-state")
            return
        S = bus.full_state()
        self.acc.count("interaction_commits_checked")
        cnt = self.acc.counters.setdefault("interaction_commits_by_tagger_class", {})
        cnt[tcls] = cnt.get(tcls, 0) + 1
        for k, a in snap.items():
            b = S[k]
            if a[1] != b[1]:
                self.viol(bus, "stale-candidate-velocity-changed",
                          f"{real_class_name(h)} (tagger {t.tag}): unit {k} had velocity {a[1]} when the candidate was "
                          f"computed, has {b[1]} at commit", {"unit": list(k), "then": a, "now": b})
                return
            if a[1] is None:
                if a[0] != b[0]:
                    self.viol(bus, "stale-candidate-target-moved",
                              f"{real_class_name(h)} (tagger {t.tag}): resting unit {k} was at {a[0]}, is at {b[0]}",
                              {"unit": list(k), "then": a, "now": b})
                    return
            else:
                xa, xb = advance(a, T), advance(b, T)
                if any(circ(xa[d] - xb[d], self.L[d]) > 1e-9 * self.L[d] for d in range(len(self.L))):
                    self.viol(bus, "stale-candidate-trajectory-changed",
                              f"{real_class_name(h)} (tagger {t.tag}): moving unit {k} is no longer on the line it was on "
                              f"when the candidate was computed", {"unit": list(k), "then": a, "now": b})
                    return


# -- C09 -----------------------------------------------------------------------------------------------------------------
class C09(Base):
    prop = "C09"

    def on_start(self, bus):
        from jellyfysh.base.strings import to_camel_case
        self.first = True
        # activation state reconstructed from the .ini as the user ships it (never from the taggers' own flags)
        self.lists = {}
        for t in bus.taggers:
            sec = to_camel_case(t.tag)
            def lst(opt):
                v = bus.cfg.get(sec, opt, fallback="") if bus.cfg.has_section(sec) else ""
                return [x.strip() for x in v.replace("\n", " ").split(",") if x.strip()]
            self.lists[t.tag] = (lst("activate"), lst("deactivate"))
        self.expected_active = {t.tag: True for t in bus.taggers}
        self.start_tag = None
        for t in bus.taggers:
            if any(real_class_name(h).endswith("StartOfRunEventHandler") for h in t.get_event_handlers()):
                self.start_tag = t.tag

    def apply(self, tag):
        act, deact = self.lists.get(tag, ([], []))
        for x in act:
            self.expected_active[x] = True
        for x in deact:
            self.expected_active[x] = False

    def on_activator(self, bus, active, preceding, result):
        if preceding is None:
            self.first = False
            self.apply(self.start_tag)
            return
        self.apply(bus.tag_of(preceding))
        # a fresh extraction of the active state for the from-scratch evaluation
        fresh = bus.sh.extract_active_global_state()
        by_tagger = {}
        for hid, (h, ids) in bus.pending.items():
            by_tagger.setdefault(id(bus.tagger_of[hid]), []).append(ids)
        for t in bus.taggers:
            tcls = real_class_name(t)
            if t.tag == self.start_tag:
                continue
            if not self.expected_active[t.tag]:
                # deactivated according to the .ini: a fresh start creates nothing for this tagger
                self.acc.count("deactivated_tagger_comparisons")
                pend = by_tagger.get(id(t), [])
                if pend:
                    self.viol(bus, "deactivated-tagger-has-pending-events",
                              f"tagger '{t.tag}' is deactivated according to the activate/deactivate lists of the .ini but "
                              f"has {len(pend)} pending events {_norm(pend)[:2]} after an event of '{bus.tag_of(preceding)}'",
                              {"tagger": t.tag, "preceding": bus.tag_of(preceding)})
                continue
            generator = type(t).yield_identifiers_send_event_time   # the activated generator, whatever the instance flag says
            gen1 = list(generator(t, fresh))
            gen2 = list(generator(t, fresh))
            if _norm(gen1) != _norm(gen2):
                self.acc.notes.append(f"tagger {t.tag} generator is not pure")
                self.acc.count("impure_generators")
                continue
            pend = by_tagger.get(id(t), [])
            self.acc.count("tagger_comparisons")
            if tcls in INTERACTION_TAGGERS:
                if _norm(pend) != _norm(gen1):
                    missing = _diff(_norm(gen1), _norm(pend))
                    extra = _diff(_norm(pend), _norm(gen1))
                    self.viol(bus, "pending-differs-from-fresh-start",
                              f"tagger '{t.tag}' ({tcls}) after an event of '{bus.tag_of(preceding)}': pending in-states "
                              f"differ from a fresh start: missing {missing[:3]}, superfluous {extra[:3]}",
                              {"tagger": t.tag, "preceding": bus.tag_of(preceding), "missing": missing[:5], "extra": extra[:5]})
                else:
                    self.acc.count("interaction_tagger_comparisons")
                    if gen1:
                        self.acc.count("interaction_tagger_comparisons_nonempty")
            else:
                if len(pend) != len(gen1):
                    self.viol(bus, "pending-count-differs-from-fresh-start",
                              f"tagger '{t.tag}' ({tcls}) after an event of '{bus.tag_of(preceding)}': {len(pend)} pending "
                              f"events, a fresh start creates {len(gen1)}",
                              {"tagger": t.tag, "preceding": bus.tag_of(preceding)})


def _norm(lst):
    return sorted(("none",) if x is None else tuple(sorted(tuple(i) for i in x)) for x in lst)


def _diff(a, b):
    b = list(b)
    out = []
    for x in a:
        if x in b:
            b.remove(x)
        else:
            out.append(x)
    return out


# -- C11 -----------------------------------------------------------------------------------------------------------------
class C11(Base):
    prop = "C11"

    def on_start(self, bus):
        from jellyfysh.base.factory import get_alias
        from jellyfysh.base.strings import to_camel_case
        self.occs = []
        for st in getattr(bus.act, "_internal_states", []):
            if not hasattr(st, "yield_active_cells"):
                continue
            sec = get_alias(type(st).__name__)
            charge = bus.cfg.get(sec, "charge", fallback=None) if bus.cfg.has_section(sec) else None
            limit = int(bus.cfg.get(sec, "maximum_number_occupants", fallback="1")) if bus.cfg.has_section(sec) else 1
            self.occs.append((st, charge, limit))
        self.recorded_cell = {}
        self.boundary_classes = ("CellBoundaryEventHandler",)

    def truth(self, bus, st, charge):
        """identifier -> true cell, for relevant units on the cell level."""
        S = bus.full_state()
        out = {}
        for k, u in S.items():
            if len(k) != st.cell_level:
                continue
            if charge is not None:
                ch = dict(u[3] or ())
                if ch.get(charge, 0) == 0:
                    continue
            out[k] = st.cells.position_to_cell(list(u[0]))
        return out, S

    def on_activator(self, bus, active, preceding, result):
        if preceding is None:
            return
        for st, charge, limit in self.occs:
            truth, S = self.truth(bus, st, charge)
            act = list(st.yield_active_cells())
            active_ids = {tuple(i) for _, i in act}
            recorded = {}
            for cell in st.cells.yield_cells():
                occ = st[cell]
                if limit > 0 and len(occ) > limit:
                    self.viol(bus, "too-many-occupants", f"cell {cell.identifier} lists {len(occ)} occupants, limit {limit}")
                for ident in occ:
                    recorded.setdefault(tuple(ident), []).append(("occupant", cell))
            surplus = getattr(st, "_surplus", None)
            if isinstance(surplus, dict):
                for cell, lst in surplus.items():
                    for ident in lst:
                        recorded.setdefault(tuple(ident), []).append(("surplus", cell))
            else:
                for ident in st.yield_surplus():
                    recorded.setdefault(tuple(ident), []).append(("surplus", None))
            self.acc.count("occupancy_checks")
            for k, cell in truth.items():
                if k in active_ids:
                    if k in recorded:
                        self.viol(bus, "active-unit-listed", f"active unit {k} is also listed as {recorded[k][0][0]}")
                    continue
                rec = recorded.get(k, [])
                if len(rec) != 1:
                    self.viol(bus, "unit-not-recorded-exactly-once", f"unit {k} (true cell {cell.identifier}) is recorded "
                                                                     f"{len(rec)} times: {[(a, c.identifier if c else None) for a, c in rec]}",
                              {"unit": list(k)})
                elif rec[0][1] is not None and rec[0][1] is not cell:
                    # mechanism classifier: the unit came to rest EXACTLY on the lower face of its true cell (its last leg
                    # ended in a time tie with the cell-boundary event) and is still recorded in the cell it came from
                    Ls = lengths()
                    on_face = [d for d in range(len(S[k][0]))
                               if (abs(S[k][0][d] - cell.cell_min[d]) <= 4 * math.ulp(Ls[d])
                                   and st.cells.neighbor_cell(cell, d, False) is rec[0][1])
                               or (abs(S[k][0][d] - cell.cell_max[d]) <= 4 * math.ulp(Ls[d])
                                   and st.cells.neighbor_cell(cell, d, True) is rec[0][1])]
                    key = "stopped-exactly-on-cell-face" if on_face and S[k][1] is None else "unit-recorded-in-wrong-cell"
                    self.viol(bus, key, f"unit {k} is at {S[k][0]} in cell {cell.identifier} but "
                                        f"recorded as {rec[0][0]} of cell {rec[0][1].identifier}",
                              {"unit": list(k)})
                else:
                    self.acc.count("units_matched")
                    if rec[0][0] == "surplus":
                        self.acc.count("surplus_units_matched")
            for k in recorded:
                if k not in truth:
                    self.viol(bus, "irrelevant-unit-recorded", f"unit {k} is recorded but is not a relevant unit")
            for cell, ident in act:
                k = tuple(ident)
                if k not in truth:
                    self.viol(bus, "active-unit-not-relevant", f"active unit {k} recorded but not relevant")
                elif truth[k] is not cell:
                    self.viol(bus, "active-cell-wrong", f"active unit {k} at {S[k][0]} is in cell {truth[k].identifier}, "
                                                        f"recorded active cell {cell.identifier}")
                else:
                    self.acc.count("active_cell_matched")
                self.recorded_cell[(id(st), k)] = cell

    def before_commit(self, bus, h, T, out_state):
        """The active unit never leaves its recorded cell without a cell-boundary event."""
        if T is None:
            return
        S = bus.full_state()
        cname = real_class_name(h)
        for st, charge, limit in self.occs:
            for cell, ident in st.yield_active_cells():
                k = tuple(ident)
                pos = advance(S[k], T)
                L = lengths()
                pos = [p % L[d] if 0 <= p % L[d] < L[d] else 0.0 for d, p in enumerate(pos)]
                now = st.cells.position_to_cell(pos)
                if now is not cell:
                    # sitting exactly on the boundary a cell-boundary event is about to process is fine
                    if cname in self.boundary_classes:
                        self.acc.count("cell_boundary_commits")
                        continue
                    edge = min(min(circ(pos[d] - cell.cell_min[d], L[d]), circ(pos[d] - cell.cell_max[d], L[d]))
                               for d in range(len(L)))
                    if edge <= 1e-9 * max(L):
                        self.acc.count("commits_on_cell_edge")
                        continue
                    self.viol(bus, "active-unit-left-cell-without-boundary-event",
                              f"at the commit of {cname} the active unit {k} is at {pos} in cell {now.identifier}, recorded "
                              f"cell {cell.identifier}", {"unit": list(k)})
                elif cname in self.boundary_classes:
                    self.acc.count("cell_boundary_commits")
        self.pre_cells = {(id(st), tuple(i)): c for st, _, _ in self.occs for c, i in st.yield_active_cells()}
        self.pre_handler = cname

    def after_commit(self, bus, h, T, out_state):
        if real_class_name(h) not in self.boundary_classes or T is None:
            return
        S = bus.full_state()
        for st, charge, limit in self.occs:
            for cell, ident in st.yield_active_cells():   # still the old record: update() happens in the next leg
                k = tuple(ident)
                u = S[k]
                if u[1] is None:
                    continue
                newc = st.cells.position_to_cell(list(u[0]))
                nbrs = []
                for d, v in enumerate(u[1]):
                    if v != 0.0:
                        nbrs.append(st.cells.neighbor_cell(cell, d, v > 0))
                if newc is cell:
                    # boundary events of OTHER occupancy systems (different level/charge) do not move this unit's cell
                    self.acc.count("boundary_commit_other_system")
                elif not any(newc is n for n in nbrs):
                    self.viol(bus, "cell-boundary-event-wrong-neighbour",
                              f"after a cell-boundary event unit {k} is in cell {newc.identifier}, old cell {cell.identifier}, "
                              f"velocity {u[1]}", {"unit": list(k)})
                else:
                    self.acc.count("cell_crossings_checked")
                    if any(abs(newc.identifier[d] - cell.identifier[d]) > 1 for d in range(len(newc.identifier))):
                        self.acc.count("cell_crossings_through_periodic_boundary")


# -- C17 -----------------------------------------------------------------------------------------------------------------
class C17(Base):
    prop = "C17"

    def on_start(self, bus):
        from fractions import Fraction as F
        cfg = bus.cfg
        self.F = F
        self.samplers = {}
        self.writes = {}
        self.last = None
        self.end = float(cfg.get("FinalTimeEndOfRunEventHandler", "end_of_run_time")) \
            if cfg.has_section("FinalTimeEndOfRunEventHandler") else None
        for h in bus.handlers:
            if real_class_name(h) == "FixedIntervalSamplingEventHandler":
                from jellyfysh.base.factory import get_alias
                sec = get_alias(type(h).__name__)
                dt = float(cfg.get(sec, "sampling_interval"))
                first0 = cfg.get(sec, "first_event_time_zero", fallback="False").lower() in ("1", "yes", "true", "on")
                self.samplers[id(h)] = (dt, first0, sec)
                self.writes[id(h)] = 0
        self.L = lengths()
        self.pre = None
        self.current = None

    def before_commit(self, bus, h, T, out_state):
        self.pre = bus.full_state() if id(h) in self.samplers or real_class_name(h).endswith("EndOfRunEventHandler") else None

    def after_commit(self, bus, h, T, out_state):
        self.current = (h, T)

    def on_write(self, bus, name, args):
        h, T = self.current if self.current else (None, None)
        if h is None or id(h) not in self.samplers:
            if h is not None and real_class_name(h).endswith("EndOfRunEventHandler"):
                self.acc.count("end_of_run_writes")
            return
        F = self.F
        dt, first0, sec = self.samplers[id(h)]
        k = self.writes[id(h)]
        self.writes[id(h)] = k + 1
        nominal = F(dt) * (k if first0 else k + 1)
        got = F(T[0]) + F(T[1])
        tol = (k + 2) * F(math.ulp(1.0 + dt)) / 2
        self.acc.count("sample_times_checked")
        if abs(got - nominal) > tol:
            self.viol(bus, "sample-time-off-nominal", f"sample {k} of {sec} at {float(got)!r}, nominal {float(nominal)!r} "
                                                      f"(interval {dt!r})")
        # the state handed over: every moving unit carries stamp == T and sits on its pre-event trajectory at T
        state = probe.snap_branches(args[0]) if args and isinstance(args[0], list) else None
        if state is None:
            return
        pre = self.pre or {}
        nmov = 0
        for kk, u in state.items():
            if u[1] is None:
                continue
            nmov += 1
            if u[2] != T:
                self.viol(bus, "sampled-state-not-time-sliced", f"at sample {k} (T={T}) moving unit {kk} carries time stamp "
                                                                f"{u[2]}: the written position is not the position at the "
                                                                f"sample time", {"unit": list(kk)})
                continue
            if kk in pre:
                want = advance(pre[kk], T)
                if any(circ(want[d] - u[0][d], self.L[d]) > 1e-9 * self.L[d] for d in range(len(self.L))):
                    self.viol(bus, "sampled-position-not-on-trajectory", f"sample {k}: unit {kk} written at {u[0]}, its "
                                                                         f"trajectory gives {want}", {"unit": list(kk)})
        if nmov:
            self.acc.count("sampled_states_with_moving_units")

    def on_end(self, bus):
        if bus.stopped_by != "end of run" or self.end is None:
            return
        F = self.F
        h, T = self.current if self.current else (None, None)
        self.acc.count("runs_reaching_end")
        if h is None or not real_class_name(h).endswith("EndOfRunEventHandler"):
            self.viol(bus, "last-commit-not-end-of-run", f"last commit by {real_class_name(h) if h else None}")
        elif F(T[0]) + F(T[1]) != F(self.end):
            self.viol(bus, "run-does-not-end-at-end-time", f"end of run committed at {T}, configured {self.end!r}")
        for hid, (dt, first0, sec) in self.samplers.items():
            # number of sampling times strictly before the end (ties are not generated)
            n = 0
            t = F(0) if first0 else F(dt)
            # samples are taken at accumulated float times; compare with exact count unless within 1e-9 of a tie
            exact = (F(self.end) / F(dt))
            want = math.ceil(exact) - (0 if first0 else 1) if exact != int(exact) else None
            if want is None or abs(float(exact) - round(float(exact))) < 1e-9:
                self.acc.count("sample_count_ties_skipped")
                continue
            want = math.floor(exact) + (1 if first0 else 0)
            if self.writes[hid] != want:
                self.viol(bus, "sample-count", f"{sec}: {self.writes[hid]} samples written, {want} sampling times before the "
                                               f"end time {self.end}")
            else:
                self.acc.count("sample_counts_checked")


MONITORS = {"C07": C07, "C08": C08, "C09": C09, "C11": C11, "C12": C12, "C13": C13, "C17": C17}


# -- scenario runner (one subprocess per scenario) ----------------------------------------------------------------------
def run_one(acc, spec=None, props=("C07",), seed=0, max_events=None, max_seconds=None, label=None):
    """Worker entry point: run one scenario with the monitors of `props` attached."""
    label = label or spec.get("name", spec["kind"])
    workdir = os.path.join(core.WORK, f"run-{os.getpid()}")

    def factory():
        return [MONITORS[p](acc, label) for p in props]

    from jellyfysh.base.exceptions import TagActivatorError, SchedulerError
    import traceback
    bus = None
    try:
        bus = probe.run_scenario(acc, spec, factory, seed=seed, max_events=max_events, max_seconds=max_seconds,
                                 workdir=workdir)
    except core.Inconclusive:
        raise
    except TagActivatorError as e:
        acc.violation("C09:tag-activator-error", f"[{label}] {e}", {"scenario": spec, "seed": seed})
    except SchedulerError as e:
        key = "event-time-decreases-scheduler-guard" if "is greater than the new smallest" in str(e) else "scheduler-error"
        acc.violation(f"{props[0] if 'C07' not in props else 'C07'}:{key}", f"[{label}] {str(e)[:400]}",
                      {"scenario": spec, "seed": seed})
    except Exception as e:
        # the unchanged tree runs every scenario of the suite to its end: a run that aborts breaks every "along every
        # run" statement, so it is reported (with the traceback) rather than swallowed
        tb = traceback.format_exc()
        key = f"{props[0]}:run-aborted-by-exception"
        if ("C11" in props and acc.violation_counts.get("C11:stopped-exactly-on-cell-face")
                and "single_active_cell_occupancy.py" in tb and "in update" in tb and isinstance(e, (KeyError, ValueError))):
            # consequence of the bookkeeping error the C11 monitor has already witnessed in THIS run: the unit recorded in
            # the wrong cell became active again and update() cannot find it in the cell its position maps to
            key = "C11:stopped-exactly-on-cell-face-crash"
        acc.violation(key, f"[{label}] {type(e).__name__}: " + tb[-700:], {"scenario": spec, "seed": seed})
    finally:
        shutil.rmtree(workdir, ignore_errors=True)
    if bus is not None:
        acc.case((label, seed, str(spec.get("params", ""))), nontrivial=bus.n_events >= 50)
        acc.count("events_total", bus.n_events)
        acc.count("scenarios_run")
        acc.counters.setdefault("events_by_scenario", {})
        acc.counters["events_by_scenario"][label] = acc.counters["events_by_scenario"].get(label, 0) + bus.n_events
        acc.counters.setdefault("stopped_by", {})
        acc.counters["stopped_by"][str(bus.stopped_by)] = acc.counters["stopped_by"].get(str(bus.stopped_by), 0) + 1
        if bus.unused_sections:
            acc.notes.append(f"{label}: unused sections {bus.unused_sections}")


# -- C10 (part 1 in runs) ------------------------------------------------------------------------------------------------
class C10(Base):
    """nearby (excluded-cells) + surplus + far (cell-veto walker domain / cell-bounding) targets partition all other units."""
    prop = "C10"

    def on_start(self, bus):
        C11.on_start(self, bus)
        self.domain_cache = {}
        self.groups = []
        for st, charge, limit in self.occs:
            ts = [t for t in bus.taggers if getattr(t, "internal_state", None) is st
                  and real_class_name(t) in ("ExcludedCellsTagger", "SurplusCellsTagger", "CellVetoTagger",
                                             "CellBoundingPotentialTagger")]
            classes = [real_class_name(t) for t in ts]
            if len(set(classes)) != len(classes):
                # several families (potentials) share one occupancy system: group by the tag's first word
                by = {}
                for t in ts:
                    by.setdefault(t.tag.split("_")[0], []).append(t)
                for k, g in by.items():
                    self.groups.append((st, charge, g))
            elif ts:
                self.groups.append((st, charge, ts))

    def veto_targets(self, bus, tagger, st, active_cell, active_id):
        """Target cells reachable by the cell-veto handler for this active unit (all alias-table rows, both outcomes)."""
        import copy
        from vf.monitors.c18 import Script
        branch = bus.sh.extract_from_global_state(active_id)
        leaf = branch
        while leaf.children:
            leaf = next((c for c in leaf.children if c.value.velocity is not None), leaf.children[0])
        vel = leaf.value.velocity
        d = max(range(len(vel)), key=lambda k: abs(vel[k]))
        ch = tuple(sorted((leaf.value.charge or {}).items()))
        key = (id(tagger), tuple(active_cell.identifier), d, ch)
        if key in self.domain_cache:
            return self.domain_cache[key]
        h = copy.deepcopy(tagger.get_event_handlers()[0])
        targets = []
        with Script() as s:
            s.row, s.u, s.e = 0, 0.5, 1.0
            h.send_event_time([bus.sh.extract_from_global_state(active_id)])
            nrows = s.choice_len
            seen = set()
            for row in range(nrows):
                for u in (1e-9, 1 - 1e-9):
                    s.row, s.u = row, u
                    t, (cell,) = h.send_event_time([bus.sh.extract_from_global_state(active_id)])
                    if (row, id(cell)) not in seen:
                        seen.add((row, id(cell)))
            cells = {}
            for row, cid in seen:
                cells[cid] = cells.get(cid, 0) + 1
            # a target cell may legitimately appear in several alias rows (once as small, once as large item); what
            # matters is the SET of reachable cells and that each stands for exactly one offset
            by_id = {id(c): c for c in st.cells.yield_cells()}
            targets = [by_id[cid] for cid in cells]
        self.domain_cache[key] = targets
        self.acc.count("veto_domains_enumerated")
        return targets

    def on_activator(self, bus, active, preceding, result):
        if preceding is None:
            return
        fresh = bus.sh.extract_active_global_state()
        for st, charge, taggers in self.groups:
            act = list(st.yield_active_cells())
            if not act:
                self.acc.count("activator_calls_without_relevant_active_unit")
                continue
            truth, S = C11.truth(self, bus, st, charge)
            (active_cell, active_id), = act[:1]
            active_id = tuple(active_id)
            others = set(truth) - {active_id}
            covered = []
            has_far = False
            for t in taggers:
                cls = real_class_name(t)
                if cls in ("ExcludedCellsTagger", "SurplusCellsTagger"):
                    for ids in t.yield_identifiers_send_event_time(fresh):
                        covered.append((tuple(ids[1]), t.tag))
                elif cls == "CellBoundingPotentialTagger":
                    has_far = True
                    for ids in t.yield_identifiers_send_event_time(fresh):
                        for x in ids[1:]:
                            covered.append((tuple(x), t.tag))
                elif cls == "CellVetoTagger":
                    has_far = True
                    # the handler's domain: the relative cells it holds bounds for (cells with a non-positive bound are in
                    # the table with rate zero: the family treats them, it just never proposes events from them), mapped
                    # through the real translate; every cell the handler can actually SAMPLE must be in that image
                    h0 = t.get_event_handlers()[0]
                    rel = list(getattr(h0, "_derivative_bounds", {}).keys())
                    image = [st.cells.translate(active_cell, r) for r in rel]
                    for cell in image:
                        for x in st[cell]:
                            covered.append((tuple(x), t.tag + f"@{cell.identifier}"))
                    sampled = self.veto_targets(bus, t, st, active_cell, active_id)
                    for cell in sampled:
                        if not any(cell is c for c in image):
                            self.viol(bus, "veto-target-outside-domain", f"cell-veto handler samples target cell "
                                                                         f"{cell.identifier} for active cell "
                                                                         f"{active_cell.identifier}, which is not the image of "
                                                                         f"any stored offset")
                    if len({id(c) for c in image}) != len(image):
                        self.viol(bus, "veto-offsets-not-injective", f"two stored offsets map to the same target cell for "
                                                                     f"active cell {active_cell.identifier}")
            self.acc.count("partition_checks")
            ids = [c[0] for c in covered]
            dup = sorted({i for i in ids if ids.count(i) > 1})
            if dup:
                self.viol(bus, "partner-treated-twice", f"active {active_id}: unit {dup[0]} is a target of "
                                                        f"{[tg for i, tg in covered if i == dup[0]]}", {"unit": list(dup[0])})
            extra = set(ids) - others
            if extra:
                self.viol(bus, "non-partner-treated", f"active {active_id}: targets {sorted(extra)[:3]} are not other relevant units")
            missing = others - set(ids)
            if has_far:
                if missing:
                    k = sorted(missing)[0]
                    self.viol(bus, "partner-missed",
                              f"active {active_id} in cell {active_cell.identifier}: unit {k} at {S[k][0]} (cell "
                              f"{truth[k].identifier}) is covered by none of {[t.tag for t in taggers]}", {"unit": list(k)})
                else:
                    self.acc.count("full_partitions_confirmed")
                    self.acc.count("partners_covered", len(ids))
            else:
                # no far family by design (hard cores): everything in a nearby cell or in a surplus list must be covered
                self.acc.count("partition_checks_without_far_family")
                near = st.cells.nearby_cells(active_cell)
                for k in missing:
                    if truth[k] in near:
                        self.viol(bus, "partner-missed", f"active {active_id}: unit {k} sits in nearby cell "
                                                         f"{truth[k].identifier} but is no target", {"unit": list(k)})
                self.acc.count("partners_covered", len(ids))


MONITORS["C10"] = C10


# -- C04 (thinning decisions in real runs) ---------------------------------------------------------------------------------
class C04(Base):
    """Every thinned event: the draw's upper limit is the bounding rate, the event is confirmed iff u < real rate, an
    unconfirmed event changes no velocity, and (for the scaled 1/r bound) bound >= real > 0 with both recomputed by the
    monitor from the event-time positions."""
    prop = "C04"

    def on_start(self, bus):
        import random
        import sys
        self.L = lengths()
        self.cur = None
        self.warns, self.draws = [], []
        mon = self
        self._orig_uniform = random.uniform

        def uniform(a, b):
            r = mon._orig_uniform(a, b)
            if mon.cur is not None:
                mon.draws.append((a, b, r))
            return r
        random.uniform = uniform
        self._patched = []
        for name, mod in list(sys.modules.items()):
            if name.startswith("jellyfysh.") and hasattr(mod, "bounding_potential_warning"):
                orig = mod.bounding_potential_warning

                def warn(hname, bound, real, _orig=orig):
                    if mon.cur is not None:
                        mon.warns.append((bound, real))
                    return _orig(hname, bound, real)
                mod.bounding_potential_warning = warn
                self._patched.append((mod, orig))
        self.charge_name = {}
        from jellyfysh.base.factory import get_alias
        for h in bus.handlers:
            sec = get_alias(type(h).__name__)
            if bus.cfg.has_section(sec):
                self.charge_name[id(h)] = bus.cfg.get(sec, "charge", fallback=None)

    def on_end(self, bus):
        import random
        random.uniform = self._orig_uniform
        for mod, orig in self._patched:
            mod.bounding_potential_warning = orig

    def after_send_event_time(self, bus, h, snap, r):
        # handlers with a piecewise constant bounding potential: a candidate at exactly the end of the look-ahead window
        # (time displacement == max_displacement) is no event at all, only a time-slicing stop
        md = getattr(h, "_max_displacement", None)
        if md is None or not snap:
            return
        t = r[0] if isinstance(r, tuple) else r
        act = [u for k, u in snap.items() if u[1] is not None and u[2] is not None
               and not any(len(o) > len(k) and o[:len(k)] == k for o in snap)]
        if len(act) != 1 or not hasattr(t, "quotient"):
            return
        q0, r0 = act[0][2]
        dt = (t.quotient - q0) + (t.remainder - r0)
        if not hasattr(self, "window_end"):
            self.window_end = {}
        self.window_end[id(h)] = abs(dt - md) <= 8 * math.ulp(max(md, abs(t.remainder), 1e-300))

    def before_send_out_state(self, bus, h, args):
        self.cur = h
        self.warns, self.draws = [], []
        self.pre = dict(bus.last_in_state.get(id(h)) or {})
        for a in args:
            if a is not None and hasattr(a, "value"):
                self.pre.update(probe.snap_branches([a]))
            elif isinstance(a, (list, tuple)):
                self.pre.update(probe.snap_branches([x for x in a if x is not None and hasattr(x, "value")]))

    def after_send_out_state(self, bus, h, args, out):
        self.cur = None
        if getattr(self, "window_end", {}).get(id(h)):
            self.acc.count("look_ahead_window_end_stops_checked")
            post = probe.snap_branches(out) if out else {}
            moved = [k for k, u in post.items() if k in self.pre and u[1] != self.pre[k][1]]
            if moved or self.draws:
                self.viol(bus, "window-end-stop-treated-as-candidate",
                          f"{real_class_name(h)}: the candidate lay beyond the look-ahead window (stop after exactly "
                          f"max_displacement), yet the out-state computation drew {self.draws[:1]} and changed the velocities "
                          f"of {[list(k) for k in moved]}: an event without a bounding rate was thinned/confirmed")
            return
        if not self.warns:
            if hasattr(h, "_bounding_potential") or "CellVeto" in real_class_name(h):
                self.acc.count("thinned_events_without_positive_rate")
            return
        cname = real_class_name(h)
        acc = self.acc
        acc.count("thinned_events_seen")
        by = acc.counters.setdefault("thinned_events_by_handler_class", {})
        by[cname] = by.get(cname, 0) + 1
        bound, real = self.warns[0]
        post = probe.snap_branches(out) if out else {}
        moved = [k for k, u in post.items() if k in self.pre and u[1] != self.pre[k][1]]
        confirmed = bool(moved)
        if not self.draws:
            if real > 0:
                self.viol(bus, "no-confirmation-draw", f"{cname}: real rate {real!r} > 0 but no uniform draw was made")
            return
        a, b, u = self.draws[0]
        if a != 0 or b != bound:
            self.viol(bus, "confirmation-limit-differs-from-bound", f"{cname}: draw uniform({a!r}, {b!r}) but the bounding rate "
                                                                    f"is {bound!r}")
            return
        want = u < real if u != real else confirmed
        if confirmed != want:
            self.viol(bus, "acceptance-rule", f"{cname}: u = {u!r}, real rate {real!r}, bound {bound!r}: the event was "
                                              f"{'confirmed' if confirmed else 'rejected'}", {"moved": [list(k) for k in moved]})
            return
        acc.count("confirmed_events" if confirmed else "rejected_events")
        if not confirmed:
            acc.count("rejected_events_velocities_checked")
        # independent recomputation of both rates from the event-time positions (handlers with a real bounding potential)
        pot = getattr(h, "_potential", None)
        bpot = getattr(h, "_bounding_potential", None)
        if pot is None or bpot is None or real_class_name(bpot) != "InversePowerCoulombBoundingPotential":
            acc.count("thinned_events_with_estimator_bound")
            if real > bound:
                acc.count("estimator_bound_exceeded")      # a statistic: these bounds are not claimed to be true bounds
            return
        if real > bound * (1 + 1e-12) or (real > 0 and not bound > 0):
            self.viol(bus, "bound-below-real-rate", f"{cname}: real rate {real!r} exceeds the scaled 1/r bound {bound!r}")
            return
        ch = self.charge_name.get(id(h))
        leaves = {k: v for k, v in post.items() if not any(len(o) > len(k) and o[:len(k)] == k for o in post)}
        actives = [k for k, v in self.pre.items() if k in leaves and v[1] is not None]
        if len(actives) != 1:
            acc.count("recomputation_skipped")
            return
        act = actives[0]
        vel = list(self.pre[act][1])
        if sum(1 for c in vel if c != 0.0) != 1:
            acc.count("recomputation_skipped")
            return
        root_active = len([k for k in self.pre if len(k) == len(act) and self.pre[k][1] is not None]) > 1
        if root_active:
            acc.count("recomputation_skipped_root_mode")
            return
        targets = [k for k in leaves if k[0] != act[0]]

        def q(k):
            return dict(post[k][3] or ()).get(ch, 1.0) if ch else 1.0
        rsum, bsum = 0.0, 0.0
        for t in targets:
            sep = []
            for d in range(len(self.L)):
                s = math.fmod(post[t][0][d] - post[act][0][d], self.L[d])
                if s >= self.L[d] / 2:
                    s -= self.L[d]
                elif s < -self.L[d] / 2:
                    s += self.L[d]
                sep.append(s)
            rsum += pot.derivative(list(vel), list(sep), q(act), q(t))
            bsum += max(0.0, bpot.derivative(list(vel), list(sep), q(act), q(t)))
        rsum = max(0.0, rsum)
        acc.count("rates_recomputed")
        tol = 1e-9 * (abs(bsum) + abs(rsum) + 1e-300)
        if abs(bsum - bound) > tol or abs(rsum - max(0.0, real)) > tol:
            self.viol(bus, "rates-differ-from-recomputation",
                      f"{cname}: handler used bound {bound!r} / real {real!r}; recomputed at the event positions: sum of "
                      f"positive pair bounds {bsum!r} / max(0, sum of pair rates) {rsum!r}")


MONITORS["C04"] = C04


# -- C14 / C15: sampled contracts on the arithmetic the simulation actually performs -------------------------------------------
class C14Run(Base):
    """Exact post-condition of Time.__add__ on a 1-in-k sample of the additions performed during a real run."""
    prop = "C14"

    def on_start(self, bus):
        from jellyfysh.base.time import Time
        from vf.monitors import c14
        self.Time = Time
        self._orig = Time.__add__
        mon = self
        self.n = 0

        def add(t, other):
            r = mon._orig(t, other)
            mon.n += 1
            if mon.n % 16 == 0 and isinstance(other, float) and other >= 0.0 and other != math.inf and t.quotient != math.inf:
                mon.acc.count("in_run_additions_checked")
                if t.quotient >= 1000.0:
                    mon.acc.count("in_run_additions_checked_at_large_times")
                c14.check_add(mon.acc, _Plain(mon._orig), t.quotient, t.remainder, other)
            elif isinstance(other, float) and other < 0.0:
                mon.acc.count("in_run_negative_displacements")
            return r
        Time.__add__ = add

    def on_end(self, bus):
        self.Time.__add__ = self._orig


class _Plain(object):
    """Time constructor whose instances add with the ORIGINAL __add__ (so that the monitor does not recurse into itself)."""

    def __init__(self, orig):
        self.orig = orig

    def __call__(self, q, r):
        from jellyfysh.base.time import Time
        outer = self

        class T(Time):
            def __add__(s, o):
                return outer.orig(s, o)
        return T(q, r)


class C15Run(Base):
    """Post-condition of correct_position_entry on a sample of the calls made during a real run."""
    prop = "C15"

    def on_start(self, bus):
        import jellyfysh.setting as setting
        from vf.monitors import c15
        self.pb = type(setting.periodic_boundaries)
        self._orig = self.pb.__dict__["correct_position_entry"]
        orig = self._orig.__func__ if isinstance(self._orig, staticmethod) else self._orig
        L = lengths()
        mon = self
        self.n = 0

        class P(object):
            correct_position_entry = staticmethod(orig)

        def cpe(x, i):
            r = orig(x, i)
            mon.n += 1
            if mon.n % 8 == 0 and x == x and abs(x) != math.inf:
                mon.acc.count("in_run_position_corrections_checked")
                if not 0.0 <= x < L[i]:
                    mon.acc.count("in_run_position_corrections_of_outside_positions")
                c15.check_position_entry(mon.acc, P, x, i, L[i], "run")
            return r
        self.pb.correct_position_entry = staticmethod(cpe)

    def on_end(self, bus):
        self.pb.correct_position_entry = self._orig


MONITORS["C14"] = C14Run
MONITORS["C15"] = C15Run


# -- C05 in runs: the unit a lifting scheme selects always has a strictly negative recorded derivative ------------------------
class C05Run(Base):
    prop = "C05"

    def on_start(self, bus):
        from jellyfysh.lifting.lifting import Lifting
        from jellyfysh.lifting.inside_first_lifting import InsideFirstLifting
        from jellyfysh.lifting.outside_first_lifting import OutsideFirstLifting
        from jellyfysh.lifting.ratio_lifting import RatioLifting
        mon = self
        self._saved = [(Lifting, "insert", Lifting.insert), (Lifting, "reset", Lifting.reset)]
        tables = {}
        oi, orst = Lifting.insert, Lifting.reset

        def insert(s, rate, ident, is_active):
            tables.setdefault(id(s), []).append((tuple(ident), rate, is_active))
            return oi(s, rate, ident, is_active)

        def reset(s):
            tables[id(s)] = []
            return orst(s)
        Lifting.insert, Lifting.reset = insert, reset
        for cls in (InsideFirstLifting, OutsideFirstLifting, RatioLifting):
            og = cls.get_active_identifier
            self._saved.append((cls, "get_active_identifier", og))

            def get(s, og=og, cls=cls):
                r = og(s)
                t = tables.get(id(s), [])
                mon.acc.count("in_run_lifting_selections")
                by = mon.acc.counters.setdefault("in_run_lifting_selections_by_scheme", {})
                by[cls.__name__] = by.get(cls.__name__, 0) + 1
                rates = [q for i, q, a in t if i == tuple(r)]
                tot = sum(q for _, q, _ in t)
                scale = sum(abs(q) for _, q, _ in t) or 1.0
                if len(t) > 2:
                    mon.acc.count("in_run_lifting_tables_with_more_than_two_units")
                if not rates or not all(q < 0 for q in rates):
                    mon.viol(bus, "nonnegative-derivative-selected-in-run",
                             f"{cls.__name__} selected unit {r} whose recorded derivative is {rates} (table {t})")
                if abs(tot) > 1e-9 * scale:
                    mon.acc.count("in_run_tables_not_summing_to_zero")
                return r
            cls.get_active_identifier = get

    def on_end(self, bus):
        for cls, name, f in self._saved:
            setattr(cls, name, f)


MONITORS["C05"] = C05Run
