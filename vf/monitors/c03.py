"""C03 - reported event rates are the directional derivative of the model energy.

Contract sweep of the real derivative() methods against Richardson-extrapolated central differences of independent energy
functions (oracles/energies.py, oracles/ewald.py), metamorphic relations on the real merged-image Coulomb potential, copies /
pickles of the C-backed potential, and the same under an ASan+UBSan build of merged_image_coulomb_potential.c."""
import copy
import math
import pickle

from vf import core, gen, native
from vf.oracles import energies as en
from vf.oracles.ewald import Ewald

LEVEL = "exploration"


def richardson(f, x, h):
    def cd(hh):
        return (f(x + hh) - f(x - hh)) / (2 * hh)
    d1, d2, d3 = cd(h), cd(h / 2), cd(h / 4)
    r1, r2 = (4 * d2 - d1) / 3, (4 * d3 - d2) / 3
    return (16 * r2 - r1) / 15


def gen_sep(rng, L, style=None):
    style = style or rng.choice(["uniform", "uniform", "face", "edge", "corner", "origin", "axis", "diagonal", "permuted"])
    s = [rng.uniform(-L / 2, L / 2) for _ in range(3)]
    eps = L * 10 ** rng.uniform(-12, -3)
    if style == "face":
        s[rng.randrange(3)] = rng.choice([-1, 1]) * (L / 2 - eps)
    elif style == "edge":
        i, j = rng.sample(range(3), 2)
        s[i] = rng.choice([-1, 1]) * (L / 2 - eps)
        s[j] = rng.choice([-1, 1]) * (L / 2 - eps)
    elif style == "corner":
        s = [rng.choice([-1, 1]) * (L / 2 - eps * rng.uniform(0.5, 2)) for _ in range(3)]
    elif style == "origin":
        f = 10 ** (rng.uniform(-4, -1) if rng.random() < 0.5 else rng.uniform(-15, -4))
        s = [c * f for c in s]
    elif style == "axis":
        k = rng.randrange(3)
        s = [s[i] if i == k else rng.choice([0.0, eps]) for i in range(3)]
    elif style == "diagonal":
        v = rng.uniform(-L / 2, L / 2)
        s = [v, v * rng.choice([1, -1]), v * rng.choice([1, -1, 0.5])]
    elif style == "permuted":
        a, b, c = sorted(s)
        s = list(rng.choice([(a, b, c), (b, c, a), (c, a, b), (a, c, b)]))
    s = [max(-L / 2, min(c, math.nextafter(L / 2, 0))) for c in s]
    return s, style


def back_to_back(acc, pot, pristine, sep, tail, speed, wit, label):
    """A potential object has no memory: the same object queried at ONE separation for all directions, speeds and charge
    signs in a row (what a handler pool does after a direction change) must answer exactly like a never-queried deep copy
    asked once, and must leave the caller's vectors untouched."""
    seq = [(0, speed), (1, speed), (2, speed), (0, 2.0 * speed), (2, speed), (2, speed), (1, 0.5 * speed)]
    for d, sp in seq:
        vel = [0.0] * 3
        vel[d] = sp
        a_sep, a_vel = list(sep), list(vel)
        g = pot.derivative(a_vel, a_sep, *tail)
        ref = copy.deepcopy(pristine).derivative(list(vel), list(sep), *tail)
        acc.count("back_to_back_queries")
        if a_sep != list(sep) or a_vel != vel:
            acc.violation("C03:derivative-call-mutates-its-arguments",
                          f"{label}: derivative(v={vel}, s={list(sep)}) left v={a_vel}, s={a_sep} in the caller's lists",
                          dict(wit, b2b=[d, sp]))
            return
        if g != ref and not (g != g and ref != ref):
            acc.violation("C03:result-depends-on-earlier-queries",
                          f"{label}: queried right after another direction/speed at the same separation s={list(sep)}, "
                          f"derivative(v={vel}) = {g!r}; a never-queried copy gives {ref!r}", dict(wit, b2b=[d, sp]))
            return


def check_radials(acc, rng):
    """Closed-form pair potentials: derivative = -U'(r) s_d / r * speed * (charges) vs finite differences of own U."""
    from vf.jf import init_setting
    from vf.monitors.c02 import make_potential
    L = rng.choice([1.0, 3.7, 0.37, 10.0])
    init_setting(3, [L] * 3)
    for kind in ("inverse_power", "lennard_jones", "displaced_even_power"):
        pot, mk, params = make_potential(rng, kind, L)
        pristine = copy.deepcopy(pot)
        for it in range(25):
            d = rng.randrange(3)
            speed = rng.choice([1.0, 0.5, 3.0, 1e-3])
            c1, c2 = (rng.choice([1.0, -1.0, 0.41]), rng.choice([1.0, -0.82, 2.0])) if kind == "inverse_power" else (1.0, 1.0)
            radial = mk(c1, c2)
            s, style = gen_sep(rng, L)
            r = math.sqrt(sum(c * c for c in s))
            if r < 1e-6 * L:
                continue
            vel = [0.0] * 3
            vel[d] = speed
            args = (vel, list(s)) + ((c1, c2) if kind == "inverse_power" else ())
            acc.case((kind, tuple(s), d), nontrivial=True)
            acc.count("derivatives_checked")
            acc.count(f"derivatives_{kind}")
            got = pot.derivative(*args)
            rho2 = sum(c * c for i, c in enumerate(s) if i != d)

            def U(sd):
                return radial.U(math.sqrt(rho2 + sd * sd))
            want = -richardson(U, s[d], 1e-3 * r) * speed
            hh = 1e-3 * r
            # natural scale of the finite-difference error: the largest slope within the stencil (next to a potential
            # minimum the slope at the point itself is ~0 while the stencil reaches slopes many decades larger)
            scale = max(abs(radial.dU(r)), abs(radial.dU(r + hh)), abs(radial.dU(max(r - hh, 1e-300)))) * speed + 1e-300
            wit = {"kind": kind, "params": params, "L": L, "s": [x.hex() for x in s], "d": d, "speed": speed, "c": [c1, c2]}
            if not isinstance(got, float) or got != got or abs(got - want) > 1e-6 * scale:
                acc.violation("C03:derivative-differs-from-energy-gradient",
                              f"{kind}{params}: derivative(v={vel}, s={s}, c={c1, c2}) = {got!r}, -dU/ds_d*speed of the "
                              f"independent energy = {want!r}", wit)
                continue
            # metamorphic: odd under s -> -s, linear in speed
            got2 = pot.derivative(*((vel, [-c for c in s]) + args[2:]))
            if abs(got + got2) > 1e-12 * scale:
                acc.violation("C03:pair-derivative-not-odd", f"{kind}: D(s)={got!r}, D(-s)={got2!r}", wit)
            v2 = [2.5 * c for c in vel]
            got3 = pot.derivative(*((v2, list(s)) + args[2:]))
            if abs(got3 - 2.5 * got) > 1e-12 * scale * 2.5:
                acc.violation("C03:derivative-not-linear-in-speed", f"{kind}: D(v)={got!r}, D(2.5v)={got3!r}", wit)
            if it % 5 == 0:
                back_to_back(acc, pot, pristine, s, args[2:], speed, wit, f"{kind}{params}")


def check_bending(acc, rng):
    from vf.jf import init_setting
    from jellyfysh.potential.bending_potential import BendingPotential
    init_setting(3, [10.0] * 3)
    phi0 = rng.choice([1.9764, 1.5, 2.5])
    k = rng.choice([75.9, 1.0, 10.0])
    pot = BendingPotential(equilibrium_angle=phi0, prefactor=k)

    def U(s1, s2):
        n1 = math.sqrt(sum(c * c for c in s1))
        n2 = math.sqrt(sum(c * c for c in s2))
        return 0.5 * k * (math.acos(max(-1.0, min(1.0, sum(a * b for a, b in zip(s1, s2)) / n1 / n2))) - phi0) ** 2
    for _ in range(40):
        s1 = [rng.gauss(0, 1) for _ in range(3)]
        s2 = [rng.gauss(0, 1) for _ in range(3)]
        n1 = math.sqrt(sum(c * c for c in s1))
        n2 = math.sqrt(sum(c * c for c in s2))
        ang = math.acos(sum(a * b for a, b in zip(s1, s2)) / n1 / n2)
        if ang < 0.2 or ang > math.pi - 0.2:
            continue
        d = rng.randrange(3)
        speed = rng.choice([1.0, 2.0])
        vel = [0.0] * 3
        vel[d] = speed
        got = pot.derivative(vel, list(s1), list(s2))
        acc.case(("bending", tuple(s1), tuple(s2), d), nontrivial=True)
        acc.count("derivatives_checked")
        acc.count("derivatives_bending")

        def f1(x):
            t = list(s1); t[d] = x
            return U(t, s2)

        def f2(x):
            t = list(s2); t[d] = x
            return U(s1, t)
        di = richardson(f1, s1[d], 1e-3 * n1) * speed
        dk = richardson(f2, s2[d], 1e-3 * n2) * speed
        want = (di, -di - dk, dk)
        scale = k * (abs(ang - phi0) + 1e-3) * (1 / n1 + 1 / n2) * speed
        wit = {"kind": "bending", "s1": s1, "s2": s2, "d": d, "phi0": phi0, "k": k}
        if len(got) != 3 or any(abs(g - w) > 1e-7 * scale for g, w in zip(got, want)):
            acc.violation("C03:derivative-differs-from-energy-gradient", f"bending k={k} phi0={phi0}: derivative = {got}, "
                                                                         f"gradient of k/2 (phi-phi0)^2 = {want}", wit)
        if abs(sum(got)) > 1e-12 * scale:
            acc.violation("C03:multi-body-derivatives-do-not-sum-to-zero", f"bending: {got}", wit)


def check_c_bound_derivative(acc, rng):
    from vf.jf import init_setting
    L = rng.choice([1.0, 3.7, 10.0])
    init_setting(3, [L] * 3, cubic=True)
    from jellyfysh.potential.inverse_power_coulomb_bounding_potential import InversePowerCoulombBoundingPotential
    k = rng.choice([1.5837, 531.2])
    pot = InversePowerCoulombBoundingPotential(prefactor=k)
    pristine = copy.deepcopy(pot)
    for it in range(30):
        s, style = gen_sep(rng, L)
        r = math.sqrt(sum(c * c for c in s))
        if r < 1e-6 * L:
            continue
        d = rng.randrange(3)
        c1, c2 = rng.choice([1.0, -1.0, 0.41]), rng.choice([1.0, -0.82])
        speed = rng.choice([1.0, 2.0])
        vel = [0.0] * 3
        vel[d] = speed
        got = pot.derivative(vel, list(s), c1, c2)
        want = k * c1 * c2 * s[d] / r ** 3 * speed
        acc.case(("cbound", tuple(s), d), nontrivial=True)
        acc.count("derivatives_checked")
        acc.count("derivatives_c_bound")
        if abs(got - want) > 1e-12 * abs(k * c1 * c2) / r ** 2 * speed:
            acc.violation("C03:derivative-differs-from-energy-gradient",
                          f"periodic 1/r bound: derivative(v={vel}, s={s}, c={c1, c2}) = {got!r}, q s_d/r^3 = {want!r}",
                          {"kind": "c_bound", "s": [x.hex() for x in s], "d": d, "L": L})
        if it % 5 == 0:
            back_to_back(acc, pot, pristine, s, (c1, c2), speed, {"kind": "c_bound", "s": [x.hex() for x in s], "L": L},
                         "periodic 1/r bound")


def check_merged(acc, rng, npoints, flavor):
    """The periodic Coulomb potential: Ewald oracle + metamorphic relations + copies."""
    from vf.jf import init_setting
    L = rng.choice([1.0, 1.0, 0.37, 3.7, 10.0, 12.836])
    init_setting(3, [L] * 3, cubic=True)
    from jellyfysh.potential.merged_image_coulomb_potential import MergedImageCoulombPotential
    pref = rng.choice([1.0, 1.0, 332.0])
    pots = {"default": MergedImageCoulombPotential(prefactor=pref),
            "a2.5": MergedImageCoulombPotential(alpha=2.5, fourier_cutoff=8, position_cutoff=3, prefactor=pref),
            "a4.5": MergedImageCoulombPotential(alpha=4.5, fourier_cutoff=10, position_cutoff=2, prefactor=pref)}
    e1 = Ewald(L, alpha=2.2, nreal=4, kmax=7)
    e2 = Ewald(L, alpha=4.0, nreal=3, kmax=13)
    pot = pots["default"]
    pristine = copy.deepcopy(pot)
    # the C object through every way of duplicating it (deep copies are what taggers make, pickles are what dumps make)
    import dill
    clones = {"copy": copy.copy(pot), "deepcopy": copy.deepcopy(pot), "pickle": pickle.loads(pickle.dumps(pot)),
              "dill": dill.loads(dill.dumps(pot)), "deepcopy_of_pickle": copy.deepcopy(pickle.loads(pickle.dumps(pot))),
              "deepcopy_a2.5": copy.deepcopy(pots["a2.5"]), "pickle_a2.5": pickle.loads(pickle.dumps(pots["a2.5"]))}
    acc.count("merged_boxes")
    for n in range(npoints):
        s, style = gen_sep(rng, L)
        r = math.sqrt(sum(c * c for c in s))
        if r < 1e-5 * L:
            # next to the origin the lattice sum is the bare pair term plus a smooth remainder: the periodic potential is
            # 1/r + psi(r) with grad psi(0) = 0 and |grad psi| <= (4 pi / 3) r / L^3 (1 + O(r^2/L^2)) (neutralising
            # background), so D = q s_d / r^3 up to 10 |q| r / L^3 - a closed form that needs no Ewald oracle
            if r == 0.0:
                continue
            d = rng.randrange(3)
            c1, c2 = rng.choice([1.0, -1.0, 0.41]), rng.choice([1.0, -0.82])
            vel = [0.0] * 3
            vel[d] = 1.0
            got = pot.derivative(vel, list(s), c1, c2)
            want = pref * c1 * c2 * s[d] / r ** 3
            acc.case(("merged-origin", L, tuple(s), d), nontrivial=True)
            acc.count("merged_points_next_to_origin")
            if not abs(got - want) <= 1e-9 * abs(pref * c1 * c2) / r ** 2 + 10.0 * abs(pref * c1 * c2) * r / L ** 3:
                acc.violation("C03:derivative-differs-from-energy-gradient",
                              f"merged-image Coulomb (L={L}) at |s| = {r:.3e}: derivative(v={vel}, s={s}, c={c1, c2}) = {got!r}, "
                              f"the pair term q s_d/r^3 that dominates there is {want!r}",
                              {"kind": "merged_origin", "L": L, "s": [x.hex() for x in s], "d": d, "c": [c1, c2], "pref": pref})
            continue
        d = rng.randrange(3)
        c1, c2 = rng.choice([1.0, -1.0, 0.41, -0.82]), rng.choice([1.0, -1.0, 0.41])
        speed = rng.choice([1.0, 1.0, 0.5, 3.0])
        vel = [0.0] * 3
        vel[d] = speed
        q = pref * c1 * c2 * speed
        got = pot.derivative(vel, list(s), c1, c2)
        scale = abs(q) * (1.0 / L ** 2 + 1.0 / r ** 2)
        wit = {"kind": "merged", "L": L, "s": [x.hex() for x in s], "d": d, "c": [c1, c2], "speed": speed, "pref": pref,
               "style": style, "flavor": flavor}
        acc.case(("merged", L, tuple(s), d), nontrivial=True)
        acc.count("merged_points")
        st = acc.counters.setdefault("merged_points_by_style", {})
        st[style] = st.get(style, 0) + 1
        if n % 4 == 0:   # the (slower) oracle on every fourth point
            a, b = e1.d_active(s, d), e2.d_active(s, d)
            if abs(a - b) > 1e-9 * (1 / L ** 2 + 1 / r ** 2):
                acc.count("oracle_self_disagreement")
            else:
                acc.count("merged_points_judged_by_ewald_oracle")
                if abs(got - q * a) > 1e-8 * scale:
                    acc.violation("C03:derivative-differs-from-energy-gradient",
                                  f"merged-image Coulomb (L={L}): derivative(v={vel}, s={s}, c={c1, c2}) = {got!r}; gradient of the "
                                  f"converged lattice-sum energy (independent Ewald, two splittings) = {q * a!r}", wit)
                    continue
        # independence of the splitting parameter
        for name in ("a2.5", "a4.5"):
            g2 = pots[name].derivative(vel, list(s), c1, c2)
            if abs(g2 - got) > 1e-8 * scale:
                acc.violation("C03:depends-on-ewald-splitting", f"merged-image Coulomb (L={L}) at s={s}, direction {d}: default "
                                                                f"splitting gives {got!r}, {name} gives {g2!r}", wit)
        # copies
        for name, cl in clones.items():
            ref = pots["a2.5"] if name.endswith("a2.5") else pot
            g2 = cl.derivative(vel, list(s), c1, c2)
            g0 = ref.derivative(vel, list(s), c1, c2)
            if g2 != g0:
                acc.violation("C03:copy-of-potential-differs", f"{name} of the merged-image potential gives {g2!r}, the original "
                                                               f"{g0!r} at s={s}", dict(wit, clone=name))
        acc.count("clone_comparisons", len(clones))
        # periodicity across the faces of the minimum-image cell (the real-space sum is truncated in a sphere around n = 0,
        # so the routine is only meant for |s_j| <= L/2; a point next to a face is compared with its image next to the
        # opposite face, which leaves the cell by at most 1e-3 L)
        near_face = [j for j in range(3) if abs(s[j]) >= L / 2 - 1e-3 * L]
        if near_face:
            j = rng.choice(near_face)
            s2 = list(s)
            s2[j] -= math.copysign(L, s[j])
            g2 = pot.derivative(vel, s2, c1, c2)
            acc.count("periodicity_checks_across_faces")
            if abs(g2 - got) > 1e-8 * scale:
                acc.violation("C03:not-periodic", f"merged-image Coulomb (L={L}): D(s)={got!r} but D(s -+ L e_{j})={g2!r} for "
                                                  f"s={s} next to a face", wit)
        # oddness in the direction of motion (reflect the whole vector)
        g2 = pot.derivative(vel, [-c for c in s], c1, c2)
        if abs(g2 + got) > 1e-9 * scale:
            acc.violation("C03:not-odd", f"merged-image Coulomb: D(s)={got!r}, D(-s)={g2!r}", wit)
        # reflection / exchange of the two transverse axes
        t = [i for i in range(3) if i != d]
        s3 = list(s)
        s3[t[0]], s3[t[1]] = -s[t[1]], s[t[0]]
        g2 = pot.derivative(vel, s3, c1, c2)
        if abs(g2 - got) > 1e-9 * scale:
            acc.violation("C03:transverse-symmetry", f"merged-image Coulomb: D(s)={got!r}, after transverse exchange {g2!r}", wit)
        # direction d on s equals direction 0 on the cyclically permuted s
        sp = [s[(d + i) % 3] for i in range(3)]
        v0 = [speed, 0.0, 0.0]
        g2 = pot.derivative(v0, sp, c1, c2)
        if abs(g2 - got) > 1e-9 * scale:
            acc.violation("C03:axis-permutation", f"merged-image Coulomb: direction {d} on s gives {got!r}, direction 0 on the "
                                                  f"cyclically permuted s gives {g2!r}", wit)
        # linearity in the charges and the speed
        g2 = pot.derivative([2 * c for c in vel], list(s), -c1, 0.5 * c2)
        if abs(g2 + got) > 1e-12 * scale:
            acc.violation("C03:not-linear-in-charges-and-speed", f"{got!r} vs {g2!r}", wit)
        acc.count("metamorphic_relations_checked", 6)
        if n % 4 == 1:
            back_to_back(acc, pot, pristine, s, (c1, c2), speed, wit, f"merged-image Coulomb (L={L})")
    # box-length scaling: D_L(s) = D_1(s/L) / L^2
    if L != 1.0:
        s, _ = gen_sep(rng, L, "uniform")
        got = pot.derivative([1.0, 0.0, 0.0], list(s), 1.0, 1.0)
        init_setting(3, [1.0] * 3, cubic=True)
        p1 = MergedImageCoulombPotential(prefactor=pref)
        g1 = p1.derivative([1.0, 0.0, 0.0], [c / L for c in s], 1.0, 1.0) / L ** 2
        acc.count("box_scaling_checked")
        if abs(g1 - got) > 1e-9 * abs(pref) * (1 / L ** 2 + 1 / sum(c * c for c in s)):
            acc.violation("C03:box-length-scaling", f"D_L(s)={got!r}, D_1(s/L)/L^2={g1!r}, L={L}", {"kind": "scaling", "L": L})
    # construct / copy / destroy for every cut-off (ragged triple array): memory errors surface under ASan
    init_setting(3, [L] * 3, cubic=True)
    for fc in range(0, 13):
        for pc in (0, 1, 2, 3):
            p = MergedImageCoulombPotential(alpha=3.45, fourier_cutoff=fc, position_cutoff=pc)
            v = p.derivative([1.0, 0.0, 0.0], [0.1 * L, -0.2 * L, 0.3 * L], 1.0, 1.0)
            c = copy.deepcopy(p)
            v2 = c.derivative([1.0, 0.0, 0.0], [0.1 * L, -0.2 * L, 0.3 * L], 1.0, 1.0)
            v3 = pickle.loads(pickle.dumps(p)).derivative([1.0, 0.0, 0.0], [0.1 * L, -0.2 * L, 0.3 * L], 1.0, 1.0)
            del p, c
            acc.count("cutoff_combinations_constructed")
            if not (v == v2 == v3) or v != v:
                acc.violation("C03:copy-of-potential-differs", f"cut-offs ({fc},{pc}): original {v!r}, deepcopy {v2!r}, "
                                                               f"pickle {v3!r}", {"kind": "cutoffs", "fc": fc, "pc": pc})


def shard(acc, prop="C03", seed=0, shard=0, rounds=3, npoints=40, flavor="plain"):
    import sys
    import jellyfysh.setting as setting
    mod = sys.modules.get("jellyfysh.potential.merged_image_coulomb_potential._merged_image_coulomb_potential")
    if mod is None or mod._verif_flavor != flavor:
        raise core.Inconclusive(f"merged extension flavor {getattr(mod, '_verif_flavor', None)}, wanted {flavor}")
    rng = core.rng_for(prop, seed, "shard", shard, flavor)
    acc.count(f"rounds_{flavor}", 0)
    for r in range(rounds):
        check_radials(acc, rng)
        check_bending(acc, rng)
        check_c_bound_derivative(acc, rng)
        check_merged(acc, rng, npoints, flavor)
        acc.count(f"rounds_{flavor}")
    setting.reset()
    if shard == 0:
        acc.sample({"example": "merged-image Coulomb L=1: derivative(v=[0,1,0], s=[0.1,0.3,-0.2], c=(1,-1)) vs -d/ds_y of the "
                               "Ewald energy (alpha=2.2, 9^3 images, |k|<=7; cross-checked with alpha=4.0, 7^3, |k|<=13)"})


def main(ctx):
    ctx.rule = ("case = (potential, separation, direction, charges, speed) through the real derivative(); inverse power, "
                "Lennard-Jones, displaced even power, periodic 1/r bound (C), bending (three units) and the merged-image Coulomb "
                "potential (C, box lengths 0.37..12.836); separations uniform, within 1e-12..1e-3 L of faces / edges / corners, "
                "near the origin, on axes and diagonals, permuted; oracle: Richardson central differences of independently "
                "written energies (Ewald energy with two different splittings that must first agree with each other); "
                "metamorphic relations on the real code: independence of the splitting parameter (3 parameter sets), "
                "periodicity, oddness, transverse symmetry, axis permutation, linearity in charges and speed, box-length scaling, "
                "bending derivatives summing to zero; copy/deepcopy/pickle/dill clones of the C object must agree bit for bit; "
                "the same under ASan+UBSan incl. construct/copy/destroy for Fourier cut-offs 0..12; distinct = argument tuples")
    ctx.assumptions = ["finite-difference tolerance 1e-6 (closed forms, relative to the largest slope within the stencil) / 1e-8 (lattice sum) of the natural scale |q|(1/L^2+1/r^2)",
                       "the Ewald oracle is only used where its two splittings agree to 1e-9"]
    nsh = ctx.pick(16, 64)
    rounds, npoints = ctx.pick((10, 100), (40, 300))
    ctx.run_workers("vf.monitors.c03:shard", [{"seed": ctx.seed, "shard": s, "rounds": rounds, "npoints": npoints,
                                               "flavor": "plain"} for s in range(nsh)], timeout=3000)

    def classify(job, rc, err):
        if rc in (97, 98) or "AddressSanitizer" in err or "runtime error:" in err:
            return ("C03:c-routine-sanitizer-report", "ASan/UBSan report in merged_image_coulomb_potential.c: "
                    + next((ln for ln in err.splitlines() if "ERROR" in ln or "runtime error" in ln), err[-300:])[:300],
                    {"kind": "asan", "job": job, "report": err[-2000:]})
        return None

    ctx.run_workers("vf.monitors.c03:shard", [{"seed": ctx.seed, "shard": 1000 + s, "rounds": 1, "npoints": ctx.pick(20, 80),
                                               "flavor": "asan"} for s in range(ctx.pick(4, 16))],
                    timeout=3000, env=native.asan_env(), classify_failure=classify)
    run_valgrind(ctx)
    ctx.require("derivatives_checked", 3000)
    ctx.require("derivatives_bending", 300)
    ctx.require("merged_points", 2000)
    ctx.require("merged_points_judged_by_ewald_oracle", 500)
    ctx.require("clone_comparisons", 5000)
    ctx.require("periodicity_checks_across_faces", 300)
    ctx.require("cutoff_combinations_constructed", 500)
    ctx.require("rounds_asan", 4)
    ctx.require("valgrind_runs", 1)


def run_valgrind(ctx):
    """potentials_driver.c under valgrind memcheck: reads of the never-initialised fourier_array[0][*][*] plane etc."""
    import os
    import subprocess
    try:
        exe = native.build_driver("potentials_driver", "valgrind",
                                  ["jellyfysh/potential/merged_image_coulomb_potential/merged_image_coulomb_potential.c"])
    except RuntimeError as e:
        ctx.inconclusive.append(str(e)[:400])
        return
    cmd = ["valgrind", "-q", "--error-exitcode=99", "--track-origins=yes", "--leak-check=no", exe, str(ctx.seed),
           str(ctx.pick(300, 3000))]
    try:
        p = subprocess.run(cmd, stdout=subprocess.PIPE, stderr=subprocess.PIPE, timeout=1800)
    except subprocess.TimeoutExpired:
        ctx.inconclusive.append("valgrind watchdog")
        return
    out, err = p.stdout.decode(errors="replace"), p.stderr.decode(errors="replace")
    ctx.case(("valgrind", ctx.seed), nontrivial=True)
    if p.returncode == 0 and "OK" in out:
        ctx.count("valgrind_runs")
        for tok in out.split():
            if "=" in tok and tok.split("=")[1].isdigit():
                ctx.count("valgrind_" + tok.split("=")[0], int(tok.split("=")[1]))
    elif p.returncode == 99 or "Invalid" in err or "uninitialised" in err or "definitely lost" in err:
        ctx.violation("C03:c-routine-memcheck-report", "valgrind memcheck on merged_image_coulomb_potential.c: "
                      + next((ln for ln in err.splitlines() if "Invalid" in ln or "uninitialised" in ln or "lost" in ln),
                             err[-300:])[:300], {"kind": "valgrind", "report": err[-2000:]})
    else:
        ctx.inconclusive.append(f"potentials_driver rc={p.returncode}: {err[-300:]}")


def replay(acc, w):
    """Re-judge the recorded arguments (merged-image and closed-form cases) with the same oracles."""
    x = w["witness"]
    fh = float.fromhex
    if x.get("kind") == "merged":
        from vf.jf import init_setting
        L = x["L"]
        init_setting(3, [L] * 3, cubic=True)
        from jellyfysh.potential.merged_image_coulomb_potential import MergedImageCoulombPotential
        pot = MergedImageCoulombPotential(prefactor=x["pref"])
        s = [fh(v) for v in x["s"]]
        vel = [0.0] * 3
        vel[x["d"]] = x["speed"]
        got = pot.derivative(vel, list(s), *x["c"])
        a = Ewald(L, alpha=2.2, nreal=4, kmax=7).d_active(s, x["d"])
        b = Ewald(L, alpha=4.0, nreal=3, kmax=13).d_active(s, x["d"])
        r = math.sqrt(sum(c * c for c in s))
        q = x["pref"] * x["c"][0] * x["c"][1] * x["speed"]
        if abs(a - b) <= 1e-9 * (1 / L ** 2 + 1 / r ** 2) and abs(got - q * a) > 1e-8 * abs(q) * (1 / L ** 2 + 1 / r ** 2):
            acc.violation(w["key"], f"replayed: derivative {got!r}, independent lattice-sum gradient {q * a!r}", x)
        for name, kw in (("a2.5", dict(alpha=2.5, fourier_cutoff=8, position_cutoff=3)),
                         ("a4.5", dict(alpha=4.5, fourier_cutoff=10, position_cutoff=2))):
            g2 = MergedImageCoulombPotential(prefactor=x["pref"], **kw).derivative(vel, list(s), *x["c"])
            if abs(g2 - got) > 1e-8 * abs(q) * (1 / L ** 2 + 1 / r ** 2):
                acc.violation("C03:depends-on-ewald-splitting", f"replayed: default {got!r}, {name} {g2!r}", x)
    elif x.get("kind") in ("inverse_power", "lennard_jones", "displaced_even_power"):
        from vf.jf import init_setting
        init_setting(3, [x["L"]] * 3)
        p = x["params"]
        c1, c2 = x["c"]
        if x["kind"] == "inverse_power":
            from jellyfysh.potential.inverse_power_potential import InversePowerPotential
            pot, radial, extra = InversePowerPotential(power=p["power"], prefactor=p["prefactor"]), \
                en.InversePower(p["prefactor"] * c1 * c2, p["power"]), (c1, c2)
        elif x["kind"] == "lennard_jones":
            from jellyfysh.potential.lennard_jones_potential import LennardJonesPotential
            pot, radial, extra = LennardJonesPotential(prefactor=p["prefactor"], characteristic_length=p["sigma"]), \
                en.LennardJones(p["prefactor"], p["sigma"]), ()
        else:
            from jellyfysh.potential.displaced_even_power_potential import DisplacedEvenPowerPotential
            pot = DisplacedEvenPowerPotential(equilibrium_separation=p["r0"], power=p["power"], prefactor=p["prefactor"])
            radial, extra = en.DisplacedEvenPower(p["prefactor"], p["r0"], p["power"]), ()
        s = [fh(v) for v in x["s"]]
        d = x["d"]
        vel = [0.0] * 3
        vel[d] = x["speed"]
        got = pot.derivative(vel, list(s), *extra)
        r = math.sqrt(sum(c * c for c in s))
        rho2 = sum(c * c for i, c in enumerate(s) if i != d)
        want = -richardson(lambda sd: radial.U(math.sqrt(rho2 + sd * sd)), s[d], 1e-3 * r) * x["speed"]
        hh = 1e-3 * r
        scale = max(abs(radial.dU(r)), abs(radial.dU(r + hh)), abs(radial.dU(max(r - hh, 1e-300)))) * x["speed"] + 1e-300
        if abs(got - want) > 1e-6 * scale:
            acc.violation(w["key"], f"replayed: derivative {got!r}, gradient of the independent energy {want!r}", x)
    elif x.get("kind") == "merged_origin":
        from vf.jf import init_setting
        L = x["L"]
        init_setting(3, [L] * 3, cubic=True)
        from jellyfysh.potential.merged_image_coulomb_potential import MergedImageCoulombPotential
        s = [fh(v) for v in x["s"]]
        r = math.sqrt(sum(c * c for c in s))
        vel = [0.0] * 3
        vel[x["d"]] = 1.0
        q = x["pref"] * x["c"][0] * x["c"][1]
        got = MergedImageCoulombPotential(prefactor=x["pref"]).derivative(vel, list(s), *x["c"])
        want = q * s[x["d"]] / r ** 3
        if not abs(got - want) <= 1e-9 * abs(q) / r ** 2 + 10.0 * abs(q) * r / L ** 3:
            acc.violation(w["key"], f"replayed: derivative {got!r}, pair term {want!r}", x)
    else:
        acc.notes.append("replay: re-run the check with the recorded seed")
