from vf.monitors import c07, suite

LEVEL = "exploration"
PROPS = ("C09",)
replay = c07.replay
RULE = c07.RULE.replace("at EVERY commit the full global state before and after is snapshot by value and judged",
                        "after EVERY activator call the pending events (reconstructed from the activator's return values only) "
                        "are compared, per tagger, with what the tagger's own generator yields from scratch for a fresh "
                        "extraction of the active state (multiset of identifier tuples for interaction taggers, count for the "
                        "others)")


def required(ctx):
    ctx.require("tagger_comparisons", 50000)
    ctx.require("interaction_tagger_comparisons_nonempty", 10000)
    ctx.require("scenarios_run", 25)


def main(ctx):
    ctx.rule = RULE + ("; plus directed variants of dipoles/dipole_motion whose chain time is shorter than the first mode switch "
                       "(end-of-chain events, which create the root-mode taggers, then occur while those taggers must still be "
                       "deactivated by the start-of-run tagger)")
    ctx.assumptions = ["pending events are reconstructed from the activator's return values only",
                       "the expected activation state of every tagger is reconstructed from the activate/deactivate lists of the "
                       ".ini, never from the taggers' own flags"]
    n_gen, sh_ev, slow_ev, gen_ev = ctx.pick((24, 2500, 1500, 2500), (200, 60000, 20000, 20000))
    jobs = suite.jobs_for(ctx, PROPS, n_gen, sh_ev, slow_ev, gen_ev, seeds=ctx.pick((0,), (0, 1, 2)))
    for k, ct in enumerate([0.3, 0.11, 0.05]):
        jobs.append({"spec": {"kind": "shipped", "name": "dipoles/dipole_motion", "end": 1e6, "overrides": {
            "SingleIndependentActivePeriodicDirectionEndOfChainEventHandler": {"chain_time": ct}}},
            "props": list(PROPS), "seed": ctx.seed * 1000 + 300 + k, "max_events": sh_ev,
            "label": f"dipoles/dipole_motion(chain_time {ct})"})
    suite.run_suite(ctx, PROPS, jobs, timeout=ctx.pick(900, 3000))
    required(ctx)
    ctx.require("deactivated_tagger_comparisons", 1000)
