from vf.monitors import c07, suite

LEVEL = "exploration"
PROPS = ("C09",)
replay = c07.replay
RULE = c07.RULE.replace("at EVERY commit the full global state before and after is snapshot by value and judged",
                        "after EVERY activator call the pending events (reconstructed from the activator's return values only) "
                        "are compared, per tagger, with what the tagger's own generator yields from scratch for a fresh "
                        "extraction of the active state (multiset of identifier tuples for interaction taggers, count for the "
                        "others)")


def required(ctx):
    ctx.require("tagger_comparisons", 50000)
    ctx.require("interaction_tagger_comparisons_nonempty", 10000)
    ctx.require("scenarios_run", 25)


def main(ctx):
    c07.main(ctx, PROPS, RULE, required)
