"""C02 - candidate event distance inverts the cumulative uphill energy.

Contract sweep: hostile generated (potential, direction, speed, separation, budget) tuples through the REAL displacement
methods (Python potentials and the C routine, plain and ASan+UBSan build), judged in energy space by oracles/energies.py."""
import math

from vf import core, gen, native
from vf.oracles import energies as en

LEVEL = "exploration"
INF = math.inf


def make_potential(rng, kind, L):
    """Returns (real potential object, oracle factory(charges)->Radial or None, params dict)."""
    if kind == "inverse_power":
        from jellyfysh.potential.inverse_power_potential import InversePowerPotential
        p = float(rng.choice([1, 2, 3, 6, 12, 1, 2, 6, 0.5, 1.5, 2.5, 6.25]))    # the power is a float > 0, not an integer
        k = rng.choice([1.0, 1e-3, 1e-6, 1e3, 0.37]) * rng.choice([1, 1, 1, -1])
        return InversePowerPotential(power=p, prefactor=k), (lambda c1, c2: en.InversePower(k * c1 * c2, p)), \
            {"power": p, "prefactor": k, "r0": None}
    if kind == "lennard_jones":
        from jellyfysh.potential.lennard_jones_potential import LennardJonesPotential
        k = rng.choice([1.0, 0.6217012, 1e-3, 50.0])
        s = rng.choice([0.1, 0.2, 0.05]) * L
        return LennardJonesPotential(prefactor=k, characteristic_length=s), (lambda *c: en.LennardJones(k, s)), \
            {"prefactor": k, "sigma": s, "r0": 2 ** (1 / 6) * s}
    if kind == "displaced_even_power":
        from jellyfysh.potential.displaced_even_power_potential import DisplacedEvenPowerPotential
        p = rng.choice([2, 2, 4, 6])
        k = rng.choice([1.0, 200.0, 529.581, 1e-2])
        r0 = rng.choice([0.1, 0.05, 0.3]) * L
        return DisplacedEvenPowerPotential(equilibrium_separation=r0, power=p, prefactor=k), \
            (lambda *c: en.DisplacedEvenPower(k, r0, p)), {"prefactor": k, "power": p, "r0": r0}
    raise ValueError(kind)


def gen_separation(rng, L, d, r0, dim=3):
    """Hostile separation in the minimum-image cube."""
    style = rng.choice(["uniform", "uniform", "axis", "sphere", "plane", "tiny", "half", "headon", "tangent"])
    s = [rng.uniform(-L / 2, L / 2) for _ in range(dim)]
    if style == "axis":
        s[d] = rng.choice([0.0, 5e-324, -5e-324, 2.0 ** -1022, -2.0 ** -60 * L, 2.0 ** -60 * L])
    elif style == "sphere" and r0:
        r = math.sqrt(sum(c * c for c in s))
        f = gen.step(r0, rng.randint(-3, 3)) / r
        s = [c * f for c in s]
    elif style == "plane":
        s[(d + 1) % dim] = 0.0
    elif style == "tiny":
        f = 10 ** rng.uniform(-8, -2)
        s = [c * f for c in s]
    elif style == "half":
        s[d] = gen.step(rng.choice([-1, 1]) * L / 2, rng.randint(0, 3) * (1 if s[d] < 0 else -1))
        s[d] = max(-L / 2, min(s[d], math.nextafter(L / 2, 0)))
    elif style == "headon":
        for i in range(dim):
            if i != d:
                s[i] = rng.choice([0.0, 0.0, 5e-324, 1e-200])
        if rng.random() < 0.5:
            s[d] = abs(s[d])
    elif style == "tangent" and r0:
        # transverse distance = r0 +- ulps: the path is tangent to the minimum sphere
        t = [rng.gauss(0, 1) if i != d else 0.0 for i in range(dim)]
        n = math.sqrt(sum(c * c for c in t)) or 1.0
        rr = gen.step(r0, rng.randint(-4, 4))
        s = [t[i] / n * rr if i != d else s[d] for i in range(dim)]
    if all(c == 0.0 for c in s):
        s[d] = 0.1 * L
    return s, style


def gen_budget(rng, ths):
    c = rng.random()
    if c < 0.35 and ths:
        th = rng.choice([t for t in ths if 0 < t < INF] or [1.0])
        return max(5e-324, gen.step(th, rng.randint(-4, 4))), "threshold"
    if c < 0.45:
        return rng.choice([5e-324, 2.0 ** -1022, 1e-300, 1e-100, 1e-30]), "denormal"
    if c < 0.55:
        return gen.logu(rng, 1e-20, 1e-6), "small"
    return rng.expovariate(1.0) * rng.choice([1.0, 1.0, 0.1, 10.0, 100.0]), "exp"


def classify_exception(kind, e, rho2, s, d, style):
    name = type(e).__name__
    if kind == "lennard_jones" and isinstance(e, TypeError) and "complex" in str(e):
        return "C02:lj-sqrt-of-negative-rounding"
    if isinstance(e, ZeroDivisionError) and rho2 == 0.0:
        return "C02:head-on-division-by-zero"
    if isinstance(e, ZeroDivisionError):
        return "C02:division-by-zero"
    if isinstance(e, ValueError) and "math domain" in str(e):
        return "C02:sqrt-of-negative-rounding"
    if isinstance(e, OverflowError):
        return "C02:overflow"
    return f"C02:displacement-raises-{name}"


def back_to_back(acc, pot, pristine, sep, mid, budget, speed, wit, label):
    """The same potential object asked at ONE separation for other directions, speeds and budgets in a row must answer like
    a never-queried deep copy asked once (no memory between calls), and must not modify the caller's velocity."""
    import copy
    for d, sp, b in [(0, speed, budget), (1, speed, budget), (2, speed, budget), (2, speed, 2.0 * budget), (0, 2.0 * speed, budget),
                     (0, speed, 0.5 * budget)]:
        vel = [0.0] * 3
        vel[d] = sp
        a_sep, a_vel = list(sep), list(vel)
        try:
            g = pot.displacement(a_vel, a_sep, *mid, b)
            ref = copy.deepcopy(pristine).displacement(list(vel), list(sep), *mid, b)
        except Exception:
            return      # totality is judged by the main sweep with a classified witness
        acc.count("back_to_back_queries")
        # (displacement() is declared to take a MutableSequence and legitimately consumes its separation argument - the
        # attractive branches move it to the closest approach in place - so only the velocity is required to stay intact)
        if a_vel != vel:
            acc.violation("C02:displacement-call-mutates-its-arguments",
                          f"{label}: displacement(v={vel}, s={list(sep)}) left v={a_vel} in the caller's velocity",
                          dict(wit, b2b=[d, sp, b]))
            return
        if g != ref and not (g != g and ref != ref):
            acc.violation("C02:result-depends-on-earlier-queries",
                          f"{label}: asked right after another direction/speed/budget at the same separation {list(sep)}, "
                          f"displacement(v={vel}, budget={b!r}) = {g!r}; a never-queried copy gives {ref!r}",
                          dict(wit, b2b=[d, sp, b]))
            return


def check_radial(acc, rng, kind, flavor):
    from vf.jf import init_setting
    L = rng.choice([1.0, 1.0, 3.7, 0.37, 10.0])
    init_setting(3, [L] * 3)
    pot, mk, params = make_potential(rng, kind, L)
    import copy
    pristine = copy.deepcopy(pot)
    for it in range(40):
        d = rng.randrange(3)
        speed = rng.choice([1.0, 1.0, 0.5, 3.0, 1e-3, 1e3])
        c1, c2 = (rng.choice([1.0, -1.0, 0.5, 2.0]), rng.choice([1.0, -1.0, 0.41])) if kind == "inverse_power" else (1.0, 1.0)
        radial = mk(c1, c2)
        s, style = gen_separation(rng, L, d, params["r0"])
        ths = en.thresholds(s, d, radial)
        budget, bstyle = gen_budget(rng, ths)
        vel = [0.0, 0.0, 0.0]
        vel[d] = speed
        args = (vel, list(s)) + ((c1, c2) if kind == "inverse_power" else ()) + (budget,)
        rho2 = sum(c * c for i, c in enumerate(s) if i != d)
        wit = {"kind": kind, "params": params, "L": L, "d": d, "speed": speed, "s": [x.hex() for x in s],
               "charges": [c1, c2], "budget": budget.hex(), "style": style, "bstyle": bstyle}
        acc.case((kind, tuple(s), d, budget, c1 * c2), nontrivial=True)
        acc.count("calls")
        acc.count(f"calls_{kind}")
        br = acc.counters.setdefault("calls_by_geometry", {})
        geo = f"{kind}:{'front' if s[d] <= 0 else 'behind'}:" + \
              ("na" if not params["r0"] else ("inside" if math.sqrt(rho2 + s[d] ** 2) < params["r0"] else "outside"))
        br[geo] = br.get(geo, 0) + 1
        if it % 8 == 3 and 1e-300 < budget < 1e300:
            back_to_back(acc, pot, pristine, s, (c1, c2) if kind == "inverse_power" else (), budget, speed, wit, f"{kind}{params}")
        try:
            t = pot.displacement(*args)
        except Exception as e:
            acc.violation(classify_exception(kind, e, rho2, s, d, style),
                          f"{kind}{params}: displacement(v={vel}, s={s}, c={c1, c2}, budget={budget!r}) raises "
                          f"{type(e).__name__}: {e}", wit)
            continue
        if isinstance(t, complex) or not isinstance(t, float) or t != t:
            key = "C02:lj-sqrt-of-negative-rounding" if kind == "lennard_jones" and isinstance(t, complex) else \
                "C02:displacement-not-a-real-number"
            acc.violation(key, f"{kind}{params}: displacement(v={vel}, s={s}, budget={budget!r}) = {t!r}", wit)
            continue
        x = t * speed
        r_abs = math.sqrt(rho2 + s[d] ** 2)
        if x < -1e-13 * (r_abs * r_abs / max(abs(s[d]), 1e-300) + r_abs):   # conditioning of sqrt(r_new^2 - rho^2) near s_d
            acc.violation("C02:negative-displacement", f"{kind}{params}: displacement(v={vel}, s={s}, budget={budget!r}) = "
                                                       f"{t!r} (negative beyond rounding)", wit)
            continue
        if x < 0:
            acc.count("negative_within_rounding")
        # -- inversion identity on well-conditioned cases ----------------------------------------------------------------
        e_inf, sc_inf = en.uphill(s, d, radial, INF)
        r_now = math.sqrt(rho2 + s[d] ** 2)
        rscale = params["r0"] or 0.05 * L
        near_threshold = any(abs(budget - th) <= 1e-9 * max(budget, th) for th in ths if th < INF)
        if near_threshold or r_now < 1e-3 * rscale or budget < 1e-290 or (rho2 == 0.0 and radial.U(0.0) == -INF):
            acc.count("ill_conditioned_totality_only")
            continue
        if x == INF:
            tol = 1e-9 * (budget + sc_inf)
            if e_inf > budget + tol:
                acc.violation("C02:infinite-although-path-accumulates-budget",
                              f"{kind}{params}: displacement(v={vel}, s={s}, c={c1, c2}, budget={budget!r}) = inf but the path "
                              f"accumulates {e_inf!r}", wit)
            else:
                acc.count("identity_checked_infinite")
            continue
        e_d, sc = en.uphill(s, d, radial, max(x, 0.0))
        if not (e_d < INF and sc < INF):
            acc.count("ill_conditioned_totality_only")   # the path runs through the singularity of the oracle's potential
            continue
        tol = 1e-9 * (budget + sc)
        delta = 1e-9 * abs(x) + 8 * math.ulp(max(abs(c) for c in s))   # the distance itself resolves no better than this
        e_lo = en.uphill(s, d, radial, max(x - delta, 0.0))[0]
        e_hi = en.uphill(s, d, radial, x + delta)[0]
        if abs(e_d - budget) > tol and not (e_lo - tol <= budget <= e_hi + tol):
            acc.violation("C02:inversion-identity",
                          f"{kind}{params}: displacement(v={vel}, s={s}, c={c1, c2}, budget={budget!r}) -> distance {x!r}; "
                          f"cumulative uphill energy there is {e_d!r} (|diff| {abs(e_d - budget):.3e} > tol {tol:.3e})", wit)
            continue
        if e_inf < budget - tol:
            acc.violation("C02:finite-although-path-never-accumulates-budget",
                          f"{kind}{params}: finite {x!r} but E_up(inf) = {e_inf!r} < budget {budget!r}", wit)
            continue
        # first crossing: the event must not sit on a downhill stretch after the budget was already used up
        pts, _ = en.breakpoints(s, d, radial)
        for f in (0.5, 0.9, 0.99):
            e_f, _ = en.uphill(s, d, radial, f * x)
            if budget > 100 * tol and e_f >= budget - tol and en.U_at(s, d, rho2, radial, x) <= en.U_at(s, d, rho2, radial, f * x) - 10 * tol \
                    and not any(f * x < p < x for p in pts):
                acc.violation("C02:not-first-crossing", f"{kind}{params}: s={s} budget={budget!r}: E_up({f}*d) = {e_f!r} "
                                                        f"already reaches the budget", wit)
                break
        acc.count("identity_checked_finite")
        acc.counters.setdefault("identity_by_geometry", {})
        acc.counters["identity_by_geometry"][geo] = acc.counters["identity_by_geometry"].get(geo, 0) + 1


def check_c_bound(acc, rng, flavor):
    from vf.jf import init_setting
    L = rng.choice([1.0, 1.0, 3.7, 2.5, 10.0, 0.37])
    init_setting(3, [L] * 3, cubic=True)
    from jellyfysh.potential.inverse_power_coulomb_bounding_potential import InversePowerCoulombBoundingPotential
    k = rng.choice([1.5837, 1.5837, 531.2, 1.6])
    pot = InversePowerCoulombBoundingPotential(prefactor=k)
    import copy
    pristine = copy.deepcopy(pot)
    for it in range(60):
        d = rng.randrange(3)
        speed = rng.choice([1.0, 0.5, 2.0])
        c1, c2 = rng.choice([1.0, -1.0, 0.41, -0.82]), rng.choice([1.0, -1.0, 0.41])
        cz = rng.random()
        if cz < 0.04:
            c1, c2 = rng.choice([(0.0, 1.0), (1.0, 0.0), (1e-200, 1e-200), (0.0, -0.82)])   # neutral unit: product exactly 0
        elif cz < 0.08:
            c1 = c1 * 10.0 ** rng.uniform(-25.0, -6.0)                                       # very weak interaction
        q = k * c1 * c2
        s, style = gen_separation(rng, L, d, None)
        if q == 0.0:
            # no interaction: no budget is ever used up, whatever the geometry (incl. exactly head-on)
            vel = [0.0, 0.0, 0.0]
            vel[d] = speed
            budget = rng.choice([rng.expovariate(1.0), 5e-324, 1e-30, 1e3])
            wit = {"kind": "c_bound", "prefactor": k, "L": L, "d": d, "speed": speed, "s": [x.hex() for x in s],
                   "charges": [c1, c2], "budget": budget.hex(), "style": style, "bstyle": "zero_charge", "flavor": flavor}
            acc.case(("c_bound", tuple(s), d, budget, q), nontrivial=True)
            acc.count("calls")
            acc.count("calls_c_bound_zero_charge_product")
            try:
                t = pot.displacement(vel, list(s), c1, c2, budget)
            except Exception as e:
                acc.violation(f"C02:c-bound-raises-{type(e).__name__}", f"C bound: s={s}, q=0, budget={budget!r}: {e}", wit)
                continue
            if t != INF:
                acc.violation("C02:c-bound-zero-charge-product" if t != t else "C02:finite-although-path-never-accumulates-budget",
                              f"C bound (L={L}): charges {c1, c2} (product 0, no interaction), s={s}, budget={budget!r}: "
                              f"displacement = {t!r}, the path never accumulates any energy (inf)", wit)
            continue
        per_lap = en.periodic_coulomb_per_lap(q, s, d, L)
        rho2 = sum(c * c for i, c in enumerate(s) if i != d)
        # thresholds: energy to the next turning point, one lap, several laps
        ths = [per_lap, 2 * per_lap, 7 * per_lap]
        e_first, _ = en.periodic_coulomb_uphill(q, s, d, L, L)
        ths.append(e_first)
        for xx in (abs(s[d]), abs(s[d]) + L / 2, L / 2 - abs(s[d])):
            if xx > 0:
                ths.append(en.periodic_coulomb_uphill(q, s, d, L, xx)[0])
        ths = [t for t in ths if 0 < t < INF]
        budget, bstyle = gen_budget(rng, ths)
        if 0 < per_lap < INF and rng.random() < 0.12:
            # budgets worth 10^6 .. 10^13 box traversals (tiny charge products or huge budgets): the lap count leaves the
            # range of 32-bit integers, the distance stays an ordinary double
            budget, bstyle = per_lap * 10.0 ** rng.uniform(6.0, rng.choice([13.0, 30.0])), "many_laps"
        vel = [0.0, 0.0, 0.0]
        vel[d] = speed
        wit = {"kind": "c_bound", "prefactor": k, "L": L, "d": d, "speed": speed, "s": [x.hex() for x in s],
               "charges": [c1, c2], "budget": budget.hex(), "style": style, "bstyle": bstyle, "flavor": flavor}
        acc.case(("c_bound", tuple(s), d, budget, q), nontrivial=True)
        acc.count("calls")
        acc.count("calls_c_bound")
        if it % 8 == 3 and 1e-300 < budget < 1e300:
            back_to_back(acc, pot, pristine, s, (c1, c2), budget, speed, wit, f"C bound (L={L}, q={q!r})")
        try:
            t = pot.displacement(vel, list(s), c1, c2, budget)
        except Exception as e:
            acc.violation(f"C02:c-bound-raises-{type(e).__name__}", f"C bound: s={s}, q={q}, budget={budget!r}: {e}", wit)
            continue
        near = any(abs(budget - th) <= 1e-9 * max(budget, th) for th in ths)
        if t != t:
            key = "C02:c-bound-sqrt-of-negative-rounding" if (near or budget < 1e-12 * abs(q) / L) else \
                ("C02:c-bound-nan-head-on" if rho2 == 0.0 else "C02:c-bound-nan")
            acc.violation(key, f"C bound (L={L}, q={q!r}): displacement(v={vel}, s={s}, budget={budget!r}) = nan", wit)
            continue
        x = t * speed
        if x < -8 * math.ulp(L):
            acc.violation("C02:negative-displacement", f"C bound (L={L}, q={q!r}): s={s}, budget={budget!r} -> {t!r}", wit)
            continue
        if near or budget < 1e-290 or x == INF or (per_lap < INF and budget / per_lap > 1e6) or (rho2 == 0.0 and q < 0):
            # (an attractive pair on an exactly head-on course falls into the singularity U = -inf: no finite budget
            # brings it out again, the inversion identity is meaningless there)
            acc.count("ill_conditioned_totality_only")
            if x == INF and per_lap > 0:
                acc.violation("C02:infinite-although-path-accumulates-budget", f"periodic 1/r never returns inf: s={s}", wit)
            elif 0 < per_lap < INF and budget / per_lap > 1e6 and x < INF and not (rho2 == 0.0 and q < 0):
                # coarse inversion identity for many laps: every full traversal costs exactly per_lap, so the distance lies
                # between (laps - 2) and (laps + 2) box lengths
                laps = budget / per_lap
                acc.count("many_lap_bounds_checked")
                if laps >= 2.0 ** 31:
                    acc.count("many_lap_bounds_checked_beyond_2^31_laps")
                if laps >= 2.0 ** 63:
                    acc.count("many_lap_bounds_checked_beyond_2^63_laps")
                if not ((laps - 2.0) * L * (1 - 1e-9) <= x <= (laps + 2.0) * L * (1 + 1e-9)):
                    acc.violation("C02:inversion-identity",
                                  f"C bound (L={L}, q={q!r}): s={s}, budget={budget!r} pays for {laps!r} box traversals (per lap "
                                  f"{per_lap!r}) but the returned distance is {x!r}", wit)
            continue
        e_d, sc = en.periodic_coulomb_uphill(q, s, d, L, max(x, 0.0))
        if not (e_d < INF and sc < INF):
            acc.count("ill_conditioned_totality_only")
            # (the pair stops at r* = q / (budget + q / s_d); a weak pair stops closer to the singularity than the distance
            # itself resolves, then x == s_d is the correctly rounded answer)
            if rho2 == 0.0 and q > 0 and s[d] > 0 and x >= s[d] and q / (budget + q / s[d]) > 4 * math.ulp(s[d]):
                acc.violation("C02:inversion-identity", f"C bound (L={L}, q={q!r}): head-on repulsive pair s={s}, finite budget "
                                                        f"{budget!r}, but the returned distance {x!r} reaches the singularity", wit)
            continue
        tol = 1e-9 * (budget + sc * (1 + (budget / per_lap if per_lap < INF else 0.0)))
        if rho2 == 0.0:
            acc.count("identity_checked_head_on")
        if abs(e_d - budget) > tol:
            # the returned distance resolves 1 ulp: next to the singularity of a weak pair that is a large step in energy;
            # the identity holds if the budget is bracketed by the energies 8 ulp before and after the returned distance
            h = 8 * math.ulp(max(x, L))
            e_lo = en.periodic_coulomb_uphill(q, s, d, L, max(x - h, 0.0))[0]
            e_hi = en.periodic_coulomb_uphill(q, s, d, L, x + h)[0]
            if e_lo - tol <= budget <= e_hi + tol:
                acc.count("identity_checked_by_position_bracket")
                continue
        if abs(e_d - budget) > tol:
            acc.violation("C02:inversion-identity",
                          f"C bound (L={L}, q={q!r}): displacement(v={vel}, s={s}, budget={budget!r}) -> distance {x!r}; "
                          f"cumulative uphill energy with re-imaging is {e_d!r} (per lap {per_lap!r})", wit)
            continue
        acc.count("identity_checked_finite")
        if budget > per_lap:
            acc.count("identity_checked_multi_lap")
        if L != 1.0:
            acc.count("identity_checked_non_unit_box")


def check_hard(acc, rng):
    from jellyfysh.potential.hard_sphere_potential import HardSpherePotential
    from jellyfysh.potential.hard_dipole_potential import HardDipolePotential
    from vf.jf import init_setting
    dim = rng.choice([2, 3])
    init_setting(dim, [1.0] * dim)
    for _ in range(60):
        R = rng.choice([0.5, 0.05, 1e-3])
        kind = rng.choice(["sphere", "dipole"])
        v = [rng.gauss(0, 1) for _ in range(dim)]
        if rng.random() < 0.3:
            v = [0.0] * dim
            v[rng.randrange(dim)] = rng.choice([1.0, -1.0, 0.3])
        sig = 2 * R
        if kind == "sphere":
            pot = HardSpherePotential(radius=R)
            u = [rng.gauss(0, 1) for _ in range(dim)]
            n = math.sqrt(sum(c * c for c in u))
            dist = sig * rng.choice([1.0, 1.0 + 1e-15, 1.0 + 1e-9, 1.5, 3.0, 10.0, rng.uniform(1, 6),
                                     1.0 - 1e-15, 1.0 - 2e-14, 1.0])     # incl. contacts rounded from below
            s = [c / n * dist for c in u]
            rmin, rmax = sig, None
        else:
            rmin, rmax = sig * 0.9524, sig * 1.0476
            pot = HardDipolePotential(minimum_separation=rmin, maximum_separation=rmax)
            u = [rng.gauss(0, 1) for _ in range(dim)]
            n = math.sqrt(sum(c * c for c in u))
            dist = rng.choice([rmin, rmax, rng.uniform(rmin, rmax), rmin * (1 + 1e-12), rmax * (1 - 1e-12)])
            s = [c / n * dist for c in u]
        wit = {"kind": "hard_" + kind, "radius": R, "v": v, "s": [x.hex() for x in s]}
        acc.case(("hard", kind, tuple(s), tuple(v)), nontrivial=True)
        acc.count("calls")
        acc.count(f"calls_hard_{kind}")
        try:
            t = pot.displacement(list(v), list(s))
        except AssertionError:
            acc.count("hard_precondition_rejections")   # |s| numerically below the contact distance: outside the statement
            continue
        except Exception as e:
            acc.violation(f"C02:hard-{kind}-raises-{type(e).__name__}", f"v={v}, s={s}: {e}", wit)
            continue
        vv = sum(c * c for c in v)
        vs = sum(a * b for a, b in zip(v, s))
        ss = sum(c * c for c in s)

        def root(r2, sign):
            disc = vs * vs - vv * (ss - r2)
            return None if disc < 0 else (vs + sign * math.sqrt(disc)) / vv

        want = None
        if vs >= 0:
            want = root(rmin * rmin, -1)
            if want is not None and want < 0:
                want = 0.0 if want > -1e-9 else None
        if want is None and rmax is not None:
            want = root(rmax * rmax, +1)
        if want is None:
            want = INF
        tscale = dist / math.sqrt(vv)
        if t != t or t < -1e-9 * tscale or (want == INF) != (t == INF) or (want != INF and abs(t - want) > 1e-9 * (abs(want) + dist / math.sqrt(vv))):
            # grazing / touching configurations are ill conditioned: only flag if the certificate fails
            tangent = vs >= 0 and abs(vs * vs - vv * (ss - rmin * rmin)) <= 1e-9 * vs * vs + 1e-300
            touching = abs(ss - rmin * rmin) <= 1e-9 * ss
            if tangent or touching:
                acc.count("ill_conditioned_totality_only")
                # a pair generated with a (tolerated) overlap d^2 - |s|^2 <= 1e-13 made contact (d^2 - |s|^2) / (2 v.s)
                # ago, which a nearly tangential approach amplifies: that much negative time is the exact answer
                ago = max(0.0, rmin * rmin - ss) / max(vs, 1e-300) if vs > 0 else 0.0
                if t != t or t < -1e-9 - 2.0 * ago:
                    acc.violation(f"C02:hard-{kind}-not-a-time", f"v={v}, s={s} -> {t!r}", wit)
                elif kind == "sphere" and touching and vs > 0.1 * math.sqrt(vv * ss):
                    # in contact (possibly rounded from below, within the potential's own tolerance) and clearly
                    # approaching: the first time of contact is now
                    acc.count("touching_and_approaching_checked")
                    if not abs(t) <= 1e-6 * tscale:
                        acc.violation("C02:hard-core-contact-time", f"hard sphere in contact and approaching: v={v}, s={s} "
                                                                    f"(|s|/2R - 1 = {dist / sig - 1:.2e}) -> {t!r}, expected 0", wit)
                continue
            acc.violation("C02:hard-core-contact-time", f"hard {kind}: v={v}, s={s} -> {t!r}, independent solve gives {want!r}", wit)
            continue
        # certificate: no earlier contact
        if t != INF and t > 0:
            for j in range(1, 33):
                tau = t * j / 33 * (1 - 1e-9)
                r2 = sum((a - b * tau) ** 2 for a, b in zip(s, v))
                if r2 < rmin * rmin * (1 - 1e-9) or (rmax is not None and r2 > rmax * rmax * (1 + 1e-9)):
                    acc.violation("C02:hard-core-not-first-contact", f"hard {kind}: v={v}, s={s}: at {tau!r} < {t!r} already "
                                                                     f"r^2 = {r2!r}", wit)
                    break
        acc.count("hard_core_times_checked")


def check_cell_bounding(acc, rng):
    """E_up(x) = rate * x with the rate the potential reports."""
    import contextlib
    import io
    from vf.jf import init_setting
    from jellyfysh.activator.internal_state.cell_occupancy.cells.cuboid_periodic_cells import CuboidPeriodicCells
    from jellyfysh.estimator.inner_point_estimator import InnerPointEstimator
    from jellyfysh.potential.cell_bounding_potential import CellBoundingPotential
    from jellyfysh.potential.inverse_power_potential import InversePowerPotential
    init_setting(3, [1.0] * 3)
    cells = CuboidPeriodicCells(cells_per_side=[rng.randint(4, 5) for _ in range(3)], neighbor_layers=1)
    charged = rng.random() < 0.5
    est = InnerPointEstimator(potential=InversePowerPotential(power=rng.choice([1.0, 6.0]), prefactor=1.0), prefactor=1.5,
                              points_per_side=2, **({"target_charge": 1.0} if charged else {}))
    pot = CellBoundingPotential(estimator=est)
    with contextlib.redirect_stdout(io.StringIO()):
        pot.initialize(cells, charged)
    far = [c for c in cells.yield_cells() if c not in cells.nearby_cells(cells.zero_cell)]
    for _ in range(80):
        c = rng.choice(far)
        d = rng.randrange(3)
        speed = rng.choice([1.0, 2.0, 0.25])
        budget = rng.choice([rng.expovariate(1.0), 5e-324, 1e-30, 1e3])
        vel = [0.0] * 3
        vel[d] = speed
        ch = (rng.choice([1.0, -1.0, 0.5]), rng.choice([1.0, -1.0])) if charged else (1.0, 1.0)
        acc.case(("cellbound", tuple(c.identifier), d, budget, ch), nontrivial=True)
        acc.count("calls")
        acc.count("calls_cell_bounding")
        t = pot.displacement(vel, c, ch[0], ch[1], budget)
        rate = pot.derivative(vel, c, ch[0], ch[1])
        wit = {"kind": "cell_bounding", "cell": list(c.identifier), "d": d, "speed": speed, "budget": budget, "charges": ch}
        if t != t or t < 0:
            acc.violation("C02:cell-bounding-not-a-time", f"cell {c.identifier}: {t!r}", wit)
        elif rate > 0:
            if budget < 1e-290:
                acc.count("ill_conditioned_totality_only")
            elif t == INF or abs(t * rate - budget) > 1e-9 * budget:
                acc.violation("C02:inversion-identity", f"cell bounding potential: displacement {t!r} * reported rate {rate!r} "
                                                        f"!= budget {budget!r}", wit)
            else:
                acc.count("identity_checked_finite")
        elif t != INF:
            acc.violation("C02:finite-although-path-never-accumulates-budget",
                          f"cell bounding potential: rate {rate!r} <= 0 but displacement {t!r}", wit)


def shard(acc, prop="C02", seed=0, shard=0, rounds=20, flavor="plain"):
    import sys
    import jellyfysh.setting as setting
    mod = sys.modules.get("jellyfysh.potential.inverse_power_coulomb_bounding_potential._inverse_power_coulomb_bounding_potential")
    if mod is None or mod._verif_flavor != flavor:
        raise core.Inconclusive(f"bounding extension flavor {getattr(mod, '_verif_flavor', None)}, wanted {flavor}")
    rng = core.rng_for(prop, seed, "shard", shard, flavor)
    acc.count(f"rounds_{flavor}", 0)
    for r in range(rounds):
        for kind in ("inverse_power", "lennard_jones", "displaced_even_power"):
            check_radial(acc, rng, kind, flavor)
        check_c_bound(acc, rng, flavor)
        check_c_bound(acc, rng, flavor)
        check_hard(acc, rng)
        if r % 5 == 0:
            check_cell_bounding(acc, rng)
        acc.count(f"rounds_{flavor}")
    setting.reset()
    if shard == 0:
        acc.sample({"example": "inverse_power power=6 prefactor=1.0 L=1: displacement(v=[0,1,0], s=[0.1,0.3,-0.2], c=(1,1), budget=0.7)"})


def main(ctx):
    ctx.rule = ("case = (potential with random parameters, direction, speed, charges, separation, energy budget) through the "
                "real displacement(); potentials: inverse power (repulsive/attractive, powers 1-12), Lennard-Jones, displaced "
                "even power, periodic 1/r bound (C routine; box lengths 0.37-10), hard sphere / hard dipole with arbitrary "
                "velocities in 2-D/3-D, cell-bounding potential; separations: uniform, on the axis/plane through the target, "
                "on and around the minimum sphere, tangent to it, head-on (transverse distance 0 or denormal), tiny, at +-L/2; "
                "budgets: exponential, 1e-20..1e-6, denormal, and the oracle's own branch thresholds +-4 ulp; totality and "
                "sign are asserted for ALL cases, the inversion identity E_up(d) = budget (energy space, 1e-9 relative), "
                "infinity iff E_up(inf) < budget and first crossing for well-conditioned cases; the C routine additionally "
                "under ASan+UBSan; distinct = distinct argument tuples")
    ctx.assumptions = ["oracle: U(r) of each potential written independently; monotone pieces from geometry (closest approach, "
                       "crossings of the minimum sphere), periodic re-imaging along the motion for the 1/r bound",
                       "well-conditioned = budget further than 1e-9 (relative) from every oracle threshold, |s| and transverse "
                       "distance > 1e-3 of the potential's length scale"]
    rounds = ctx.pick(100, 600)
    nsh = ctx.pick(16, 64)
    jobs = [{"seed": ctx.seed, "shard": s, "rounds": rounds, "flavor": "plain"} for s in range(nsh)]
    ctx.run_workers("vf.monitors.c02:shard", jobs, timeout=3000)

    def classify(job, rc, err):
        if rc in (97, 98) or "AddressSanitizer" in err or "runtime error:" in err:
            return ("C02:c-routine-sanitizer-report", "ASan/UBSan report in the C displacement/derivative: "
                    + next((ln for ln in err.splitlines() if "ERROR" in ln or "runtime error" in ln), err[-300:])[:300],
                    {"kind": "asan", "job": job, "report": err[-2000:]})
        return None

    jobs = [{"seed": ctx.seed, "shard": 1000 + s, "rounds": ctx.pick(20, 100), "flavor": "asan"} for s in range(ctx.pick(4, 16))]
    ctx.run_workers("vf.monitors.c02:shard", jobs, timeout=3000, env=native.asan_env(), classify_failure=classify)
    ctx.require("calls", 50000)
    ctx.require("identity_checked_finite", 10000)
    ctx.require("identity_checked_infinite", 300)
    ctx.require("identity_checked_multi_lap", 300)
    ctx.require("identity_checked_non_unit_box", 300)
    ctx.require("hard_core_times_checked", 2000)
    ctx.require("rounds_asan", 8)
    geo = ctx.counters.get("identity_by_geometry", {})
    for k in ("lennard_jones", "displaced_even_power"):
        for g in ("front:inside", "front:outside", "behind:inside", "behind:outside"):
            if geo.get(f"{k}:{g}", 0) < 50:
                ctx.inconclusive.append(f"branch {k}:{g} reached only {geo.get(f'{k}:{g}', 0)} times with the identity checked")


def replay(acc, w):
    x = w["witness"]
    acc.notes.append("replay: re-run the check with the recorded VERIF_SEED; the witness holds the exact arguments")
    if x.get("kind") in ("inverse_power", "lennard_jones", "displaced_even_power"):
        from vf.jf import init_setting
        init_setting(3, [x["L"]] * 3)
        p = x["params"]
        if x["kind"] == "inverse_power":
            from jellyfysh.potential.inverse_power_potential import InversePowerPotential
            pot = InversePowerPotential(power=p["power"], prefactor=p["prefactor"])
            extra = tuple(x["charges"])
        elif x["kind"] == "lennard_jones":
            from jellyfysh.potential.lennard_jones_potential import LennardJonesPotential
            pot = LennardJonesPotential(prefactor=p["prefactor"], characteristic_length=p["sigma"])
            extra = ()
        else:
            from jellyfysh.potential.displaced_even_power_potential import DisplacedEvenPowerPotential
            pot = DisplacedEvenPowerPotential(equilibrium_separation=p["r0"], power=p["power"], prefactor=p["prefactor"])
            extra = ()
        vel = [0.0] * 3
        vel[x["d"]] = x["speed"]
        s = [float.fromhex(v) for v in x["s"]]
        try:
            t = pot.displacement(vel, list(s), *extra, float.fromhex(x["budget"]))
            if isinstance(t, complex) or t != t or t < -1e-9:
                acc.violation(w["key"], f"replayed: {t!r}", x)
            elif w["key"].endswith(("inversion-identity", "infinite-although-path-accumulates-budget",
                                    "finite-although-path-never-accumulates-budget")):
                mk = {"inverse_power": lambda: en.InversePower(p["prefactor"] * x["charges"][0] * x["charges"][1], p["power"]),
                      "lennard_jones": lambda: en.LennardJones(p["prefactor"], p["sigma"]),
                      "displaced_even_power": lambda: en.DisplacedEvenPower(p["prefactor"], p["r0"], p["power"])}[x["kind"]]()
                budget = float.fromhex(x["budget"])
                xx = t * x["speed"]
                e_inf, sc_inf = en.uphill(s, x["d"], mk, INF)
                if xx == INF:
                    if e_inf > budget + 1e-9 * (budget + sc_inf):
                        acc.violation(w["key"], f"replayed: inf although the path accumulates {e_inf!r}", x)
                else:
                    e_d, sc = en.uphill(s, x["d"], mk, max(xx, 0.0))
                    if abs(e_d - budget) > 1e-9 * (budget + sc):
                        acc.violation(w["key"], f"replayed: E_up({xx!r}) = {e_d!r}, budget {budget!r}", x)
        except Exception as e:
            acc.violation(w["key"], f"replayed: {type(e).__name__}: {e}", x)
    elif x.get("kind") == "c_bound":
        from vf.jf import init_setting
        init_setting(3, [x["L"]] * 3, cubic=True)
        from jellyfysh.potential.inverse_power_coulomb_bounding_potential import InversePowerCoulombBoundingPotential
        pot = InversePowerCoulombBoundingPotential(prefactor=x["prefactor"])
        s = [float.fromhex(v) for v in x["s"]]
        vel = [0.0] * 3
        vel[x["d"]] = x["speed"]
        budget = float.fromhex(x["budget"])
        t = pot.displacement(vel, list(s), x["charges"][0], x["charges"][1], budget)
        q = x["prefactor"] * x["charges"][0] * x["charges"][1]
        if t != t or t < 0:
            acc.violation(w["key"], f"replayed: {t!r}", x)
        else:
            e_d, sc = en.periodic_coulomb_uphill(q, s, x["d"], x["L"], t * x["speed"])
            per = en.periodic_coulomb_per_lap(q, s, x["d"], x["L"])
            if e_d < INF and abs(e_d - budget) > 1e-9 * (budget + sc * (1 + (budget / per if per < INF else 0))):
                acc.violation(w["key"], f"replayed: E_up = {e_d!r}, budget {budget!r}", x)
