"""python -m vf.worker <module:func> <json kwargs> <out file>: run one shard in a fresh process, write its Acc as JSON."""
import importlib
import json
import sys
import traceback

from vf import core


def main():
    target, kwargs, out = sys.argv[1], json.loads(sys.argv[2]), sys.argv[3]
    mod, func = target.split(":")
    acc = core.Acc()
    try:
        core.assert_repo_import()
        getattr(importlib.import_module(mod), func)(acc, **kwargs)
    except core.Inconclusive as e:
        acc.notes.append(f"inconclusive: {e}")
        acc.count("worker_inconclusive")
    except BaseException:
        # an exception escaping the monitor itself is a harness problem: inconclusive, never a verdict
        acc.notes.append("worker exception: " + traceback.format_exc()[-2000:])
        acc.count("worker_exceptions")
    with open(out + ".tmp", "w") as f:
        json.dump(acc.dump(), f)
    import os
    os.replace(out + ".tmp", out)


if __name__ == "__main__":
    main()
