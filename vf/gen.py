"""Hostile float generators shared by the contract sweeps."""
import math
import struct


def nbrs(x, k=2):
    """x and its k IEEE neighbours on either side."""
    out = [x]
    lo = hi = x
    for _ in range(k):
        lo = math.nextafter(lo, -math.inf)
        hi = math.nextafter(hi, math.inf)
        out += [lo, hi]
    return out


def step(x, n):
    """n ulps away from x (n may be negative)."""
    d = math.inf if n > 0 else -math.inf
    for _ in range(abs(n)):
        x = math.nextafter(x, d)
    return x


def logu(rng, lo, hi):
    return math.exp(rng.uniform(math.log(lo), math.log(hi)))


def rand_bits_unit(rng):
    """Uniform float in [0,1) with random low bits (random.random() has only 53-bit grid; this adds small exponents)."""
    e = rng.choice([0, 0, 0, 1, 2, 5, 10, 30, 60, 200, 1000])
    return rng.random() * 2.0 ** (-e)


def f2i(x):
    return struct.unpack("<q", struct.pack("<d", x))[0]
