"""Harness-side input handlers, registered under jellyfysh.input_output_handler.input_handler.* so that the repository's
own factory builds them from an .ini section.  They only produce legal initial states; nothing here is an oracle.

VerifPdbInputHandler   - dependency-free reader of the shipped .pdb file (the shipped PdbInputHandler needs MDAnalysis,
                         which is not installed; the two hard-disk configurations are skipped by the test-suite)
VerifStateInputHandler - reads an explicit initial state (JSON): used for generated hard-core systems that must not overlap
"""
import json
import sys
import types
from typing import List, Sequence

import jellyfysh.setting as setting
from jellyfysh.base.node import Node
from jellyfysh.base.particle import Particle
from jellyfysh.input_output_handler.input_handler.charge_values import ChargeValues
from jellyfysh.input_output_handler.input_handler.input_handler import InputHandler
from jellyfysh.setting import hypercuboid_setting

PKG = "jellyfysh.input_output_handler.input_handler"


def _center(node):
    first = node.children[0].value.position
    center = [e * node.children[0].weight for e in first]
    for k in range(1, len(node.children)):
        other = node.children[k].value.position
        sep = setting.periodic_boundaries.separation_vector(first, other)
        closest = [e + sep[i] for i, e in enumerate(first)]
        center = [e + closest[i] * node.children[k].weight for i, e in enumerate(center)]
    setting.periodic_boundaries.correct_position(center)
    return center


class VerifPdbInputHandler(InputHandler):
    def __init__(self, filename: str, charge_values: Sequence[ChargeValues] = ()) -> None:
        super().__init__()
        self._filename = filename
        self._charge_values = charge_values
        self._atoms = []
        box = None
        with open(filename) as f:
            for line in f:
                if line.startswith("CRYST1"):
                    box = [float(line[6:15]), float(line[15:24]), float(line[24:33])]
                elif line.startswith(("ATOM", "HETATM")):
                    self._atoms.append((int(line[6:11]), int(line[22:26]),
                                        [float(line[30:38]), float(line[38:46]), float(line[46:54])]))
        resids = sorted({a[1] for a in self._atoms})
        per = len(self._atoms) // len(resids)
        setting.set_number_of_root_nodes(len(resids))
        setting.set_number_of_nodes_per_root_node(per)
        setting.set_number_of_node_levels(1 if per == 1 else 2)
        for i in range(setting.dimension):
            assert abs(box[i] - hypercuboid_setting.system_lengths[i]) < 1e-5

    def read(self) -> List[Node]:
        nodes = [Node() for _ in range(setting.number_of_root_nodes)]
        for serial, resid, pos in self._atoms:
            idx = (serial - 1) % setting.number_of_nodes_per_root_node
            position = [float(pos[i]) for i in range(setting.dimension)]
            setting.periodic_boundaries.correct_position(position)
            particle = Particle(position=position, charge={cv.charge_name: cv[idx] for cv in self._charge_values})
            if setting.number_of_node_levels > 1:
                nodes[resid - 1].add_child(Node(particle))
            else:
                nodes[resid - 1].value = particle
        if setting.number_of_node_levels > 1:
            for node in nodes:
                node.value = Particle(position=_center(node))
        return nodes


class VerifStateInputHandler(InputHandler):
    """filename: JSON {"roots": [[pos, pos, ...], ...]} (one list of point-mass positions per root)."""

    def __init__(self, filename: str, charge_values: Sequence[ChargeValues] = ()) -> None:
        super().__init__()
        self._filename = filename
        self._charge_values = charge_values
        with open(filename) as f:
            self._roots = json.load(f)["roots"]
        per = len(self._roots[0])
        setting.set_number_of_root_nodes(len(self._roots))
        setting.set_number_of_nodes_per_root_node(per)
        setting.set_number_of_node_levels(1 if per == 1 else 2)

    def read(self) -> List[Node]:
        nodes = [Node() for _ in self._roots]
        for node, members in zip(nodes, self._roots):
            for idx, pos in enumerate(members):
                position = [float(x) for x in pos]
                setting.periodic_boundaries.correct_position(position)
                particle = Particle(position=position, charge={cv.charge_name: cv[idx] for cv in self._charge_values})
                if len(members) > 1:
                    node.add_child(Node(particle))
                else:
                    node.value = particle
            if len(members) > 1:
                node.value = Particle(position=_center(node))
        return nodes


def register():
    for name, cls in (("verif_pdb_input_handler", VerifPdbInputHandler),
                      ("verif_state_input_handler", VerifStateInputHandler)):
        full = f"{PKG}.{name}"
        if full not in sys.modules:
            m = types.ModuleType(full)
            setattr(m, cls.__name__, cls)
            cls.__module__ = full
            sys.modules[full] = m
            setattr(sys.modules[PKG], name, m)
