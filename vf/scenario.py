"""E2: scenarios = ConfigParser objects that the repository's own factory turns into a setting + mediator.

A scenario is described by a JSON-able spec:
  {"kind": "shipped", "name": "dipoles/dipole_motion", "end": 40.0, "overrides": {"Section": {"option": "value"}}}
  {"kind": "spheres", ...}   generated point-mass systems (see gen_spheres)
All file names are made absolute (factor files -> repository, outputs -> the scenario's work directory)."""
import json
import os
from configparser import ConfigParser

from vf import core

CFG = os.path.join(core.REPO, "jellyfysh", "config_files")
JCP = "2018_JCP_149_064113"
SHIPPED = {
    "coulomb_atoms/power_bounded": f"{JCP}/coulomb_atoms/power_bounded.ini",
    "coulomb_atoms/cell_bounded": f"{JCP}/coulomb_atoms/cell_bounded.ini",
    "coulomb_atoms/cell_veto": f"{JCP}/coulomb_atoms/cell_veto.ini",
    "coulomb_atoms/power_bounded_dump": f"{JCP}/coulomb_atoms/power_bounded_dump.ini",
    "dipoles/atom_factors": f"{JCP}/dipoles/atom_factors.ini",
    "dipoles/cell_bounded": f"{JCP}/dipoles/cell_bounded.ini",
    "dipoles/cell_veto": f"{JCP}/dipoles/cell_veto.ini",
    "dipoles/dipole_factors_inside_first": f"{JCP}/dipoles/dipole_factors_inside_first.ini",
    "dipoles/dipole_factors_outside_first": f"{JCP}/dipoles/dipole_factors_outside_first.ini",
    "dipoles/dipole_factors_ratio": f"{JCP}/dipoles/dipole_factors_ratio.ini",
    "dipoles/dipole_motion": f"{JCP}/dipoles/dipole_motion.ini",
    "water/coulomb_cell_veto_lj_cell_veto": f"{JCP}/water/coulomb_cell_veto_lj_cell_veto.ini",
    "water/coulomb_cell_veto_lj_inverted": f"{JCP}/water/coulomb_cell_veto_lj_inverted.ini",
    "water/coulomb_power_bounded_lj_cell_bounded": f"{JCP}/water/coulomb_power_bounded_lj_cell_bounded.ini",
    "water/coulomb_power_bounded_lj_inverted": f"{JCP}/water/coulomb_power_bounded_lj_inverted.ini",
    "water/single_molecule": f"{JCP}/water/single_molecule.ini",
    "hard_disk_dipoles/hard_disk_dipoles": "hard_disk_dipoles/hard_disk_dipoles.ini",
    "hard_disk_dipoles/hard_disk_dipoles_cells": "hard_disk_dipoles/hard_disk_dipoles_cells.ini",
    "hard_disk_dipoles/single_hard_disk_dipole": "hard_disk_dipoles/single_hard_disk_dipole.ini",
}
# initialisation cost (s) of the cell-veto/cell-bounded configurations is 2-30 s: they are "slow"
SLOW = {"coulomb_atoms/cell_veto", "dipoles/cell_veto", "dipoles/cell_bounded", "coulomb_atoms/cell_bounded",
        "water/coulomb_cell_veto_lj_cell_veto", "water/coulomb_cell_veto_lj_inverted",
        "water/coulomb_power_bounded_lj_cell_bounded"}


def _absolutise(cfg, workdir):
    for sec in cfg.sections():
        if cfg.has_option(sec, "filename"):
            v = cfg.get(sec, "filename")
            if v.startswith("config_files/"):
                cfg.set(sec, "filename", os.path.join(core.REPO, "jellyfysh", v))
            elif not os.path.isabs(v):
                cfg.set(sec, "filename", os.path.join(workdir, os.path.basename(v)))


def shipped(name, workdir, end=None, overrides=None):
    cfg = ConfigParser()
    path = os.path.join(CFG, SHIPPED[name])
    if not cfg.read(path):
        raise core.Inconclusive(f"cannot read {path}")
    _absolutise(cfg, workdir)
    # the two 81-dipole configurations use PdbInputHandler (MDAnalysis, not installed): dependency-free reader instead
    if cfg.has_section("InputOutputHandler") and cfg.get("InputOutputHandler", "input_handler") == "pdb_input_handler":
        cfg.set("InputOutputHandler", "input_handler", "verif_pdb_input_handler")
        items = dict(cfg.items("PdbInputHandler"))
        cfg.remove_section("PdbInputHandler")
        cfg.add_section("VerifPdbInputHandler")
        for k, v in items.items():
            cfg.set("VerifPdbInputHandler", k, v)
    if end is not None:
        cfg.set("FinalTimeEndOfRunEventHandler", "end_of_run_time", repr(float(end)))
    for sec, opts in (overrides or {}).items():
        if not cfg.has_section(sec):
            cfg.add_section(sec)
        for k, v in opts.items():
            if v is None:
                cfg.remove_option(sec, k)
            else:
                cfg.set(sec, k, str(v))
    return cfg


# -- generated point-mass systems --------------------------------------------------------------------------------------
def gen_spheres(p, workdir):
    """p: dict(dim, lengths, n, potential: 'inverse_power'|'lennard_jones'|'harmonic', power, prefactor, scheduler,
    sampling_interval, chain_time, end, eoc: 'periodic'|'sequential', beta, first_sample_zero(bool),
    cells: None | dict(cells_per_side, layers, max_occupants), dump_interval: None|float)"""
    cfg = ConfigParser()
    dim, lengths = p["dim"], p["lengths"]
    cubic = len(set(lengths)) == 1 and not p.get("force_cuboid")
    cfg["Run"] = {"mediator": p.get("mediator", "single_process_mediator"),
                  "setting": "hypercubic_setting" if cubic else "hypercuboid_setting"}
    if cubic:
        cfg["HypercubicSetting"] = {"system_length": repr(lengths[0]), "beta": repr(p.get("beta", 1.0)),
                                    "dimension": str(dim)}
    else:
        cfg["HypercuboidSetting"] = {"system_lengths": ", ".join(repr(x) for x in lengths),
                                     "beta": repr(p.get("beta", 1.0)), "dimension": str(dim)}
    med = "SingleProcessMediator" if p.get("mediator", "single_process_mediator") == "single_process_mediator" \
        else "MultiProcessMediator"
    cfg[med] = {"state_handler": "tree_state_handler", "scheduler": p.get("scheduler", "heap_scheduler"),
                "activator": "tag_activator", "input_output_handler": "input_output_handler"}
    if med == "MultiProcessMediator":
        cfg[med]["number_cores"] = str(p.get("cores", 4))
    cells = p.get("cells")
    dump = p.get("dump_interval")
    pair_tags = ["pair"] if not cells else ["pair_nearby", "pair_surplus", "cell_boundary"] + \
        (["pair_far"] if cells.get("far", True) else [])
    second = bool(cells and cells.get("second_system"))
    if second:
        # a second, weaker pair interaction with its own cell-occupancy system on the SAME cell grid (coinciding faces: the
        # two cell-boundary events of a crossing carry identical times)
        pair_tags += ["pair2_nearby", "pair2_surplus", "cell_boundary2"]
    all_motion = ", ".join(pair_tags)
    taggers = []
    if not cells:
        taggers.append("pair (factor_type_map_in_state_tagger)")
    else:
        taggers += ["pair_nearby (excluded_cells_tagger)", "pair_surplus (surplus_cells_tagger)",
                    "cell_boundary (cell_boundary_tagger)"]
        if cells.get("far", True):
            taggers.append("pair_far (cell_veto_tagger)" if cells.get("veto") else "pair_far (cell_bounding_potential_tagger)")
    if second:
        taggers += ["pair2_nearby (excluded_cells_tagger)", "pair2_surplus (surplus_cells_tagger)",
                    "cell_boundary2 (cell_boundary_tagger)"]
    taggers += ["sampling (no_in_state_tagger)", "end_of_chain (active_global_state_in_state_tagger)",
                "start_of_run (no_in_state_tagger)", "end_of_run (no_in_state_tagger)"]
    if dump:
        taggers.append("dumping (no_in_state_tagger)")
    cfg["TagActivator"] = {"taggers": ",\n".join(taggers)}
    if cells:
        cfg["TagActivator"]["internal_states"] = "single_active_cell_occupancy" + \
            (", second_occupancy (single_active_cell_occupancy)" if second else "")
    pot = p.get("potential", "inverse_power")
    potsec = {"inverse_power": ("soft_potential (inverse_power_potential)", "SoftPotential",
                                {"prefactor": repr(p.get("prefactor", 1.0)), "power": repr(float(p.get("power", 6)))}),
              "lennard_jones": ("lj_potential (lennard_jones_potential)", "LjPotential",
                                {"prefactor": repr(p.get("prefactor", 1.0)),
                                 "characteristic_length": repr(p.get("sigma", 0.2))}),
              "harmonic": ("spring_potential (displaced_even_power_potential)", "SpringPotential",
                           {"equilibrium_separation": repr(p.get("r0", 0.3)), "prefactor": repr(p.get("prefactor", 5.0)),
                            "power": str(int(p.get("power", 2)))}),
              "hard_sphere": ("hard_potential (hard_sphere_potential)", "HardPotential",
                              {"radius": repr(p.get("radius", 0.05))})}[pot]
    if not cells:
        cfg["Pair"] = {"create": "pair", "trash": "pair", "event_handler": "pair_event_handler (two_leaf_unit_event_handler)",
                       "number_event_handlers": str(max(1, p["n"] - 1)), "factor_type_maps": "factor_type_maps"}
        cfg["FactorTypeMaps"] = {"filename": os.path.join(workdir, "factors.txt")}
        with open(os.path.join(workdir, "factors.txt"), "w") as f:
            f.write("[0, 1], Pair\n")
    else:
        common = {"create": all_motion, "trash": all_motion, "internal_state_label": "single_active_cell_occupancy"}
        ncell = 1
        for c in cells["cells_per_side"]:
            ncell *= c
        cfg["PairNearby"] = dict(common, event_handler="pair_event_handler (two_leaf_unit_event_handler)",
                                 number_event_handlers=str(max(1, p["n"])))
        cfg["PairSurplus"] = dict(common, event_handler="pair_event_handler (two_leaf_unit_event_handler)",
                                  number_event_handlers=str(max(1, p["n"])))
        cfg["CellBoundary"] = dict(common, event_handler="cell_boundary_event_handler")
        if cells.get("far", True) and cells.get("veto"):
            cfg["PairFar"] = dict(common, event_handler="leaf_unit_cell_veto_event_handler")
            cfg["LeafUnitCellVetoEventHandler"] = {"estimator": "inner_point_estimator", "potential": potsec[0]}
            cfg["InnerPointEstimator"] = {"potential": potsec[0], "prefactor": repr(cells.get("est_prefactor", 1.5)),
                                          "points_per_side": str(cells.get("points_per_side", 3))}
        elif cells.get("far", True):
            cfg["PairFar"] = dict(common, event_handler="two_leaf_unit_cell_bounding_potential_event_handler",
                                  number_event_handlers=str(max(1, p["n"])))
            cfg["TwoLeafUnitCellBoundingPotentialEventHandler"] = {
                "potential": potsec[0], "bounding_potential": "cell_bounding_potential"}
            cfg["CellBoundingPotential"] = {"estimator": "inner_point_estimator"}
            cfg["InnerPointEstimator"] = {"potential": potsec[0], "prefactor": repr(cells.get("est_prefactor", 1.5)),
                                          "points_per_side": str(cells.get("points_per_side", 3))}
        cfg["SingleActiveCellOccupancy"] = {"cells": "cuboid_periodic_cells", "cell_level": "1",
                                            "maximum_number_occupants": str(cells.get("max_occupants", 1))}
        cfg["CuboidPeriodicCells"] = {"cells_per_side": ", ".join(str(c) for c in cells["cells_per_side"]),
                                      "neighbor_layers": str(cells.get("layers", 1))}
        if second:
            common2 = {"create": all_motion, "trash": all_motion, "internal_state_label": "second_occupancy"}
            cfg["Pair2Nearby"] = dict(common2, event_handler="pair2_event_handler (two_leaf_unit_event_handler)",
                                      number_event_handlers=str(max(1, p["n"])))
            cfg["Pair2Surplus"] = dict(common2, event_handler="pair2_event_handler (two_leaf_unit_event_handler)",
                                       number_event_handlers=str(max(1, p["n"])))
            # as in the shipped two-system configurations, a cell-boundary event re-creates only the events of its own system
            own2 = "pair2_nearby, pair2_surplus, cell_boundary2"
            own1 = ", ".join(t for t in pair_tags if t not in ("pair2_nearby", "pair2_surplus", "cell_boundary2"))
            cfg["CellBoundary2"] = dict(common2, event_handler="cell_boundary_event_handler", create=own2, trash=own2)
            cfg["CellBoundary"]["create"] = own1
            cfg["CellBoundary"]["trash"] = own1
            cfg["Pair2EventHandler"] = {"potential": "second_potential (inverse_power_potential)"}
            cfg["SecondPotential"] = {"prefactor": repr(1e-3 * (0.2 * min(p["lengths"])) ** 4), "power": "4.0"}
            cfg["SecondOccupancy"] = {"cells": "cuboid_periodic_cells", "cell_level": "1",
                                      "maximum_number_occupants": str(cells.get("max_occupants2", 2))}
    cfg["PairEventHandler"] = {"potential": potsec[0]}
    cfg[potsec[1]] = potsec[2]
    cfg["Sampling"] = {"create": "sampling", "trash": "sampling", "event_handler": "fixed_interval_sampling_event_handler"}
    cfg["FixedIntervalSamplingEventHandler"] = {"sampling_interval": repr(p.get("sampling_interval", 0.37)),
                                                "output_handler": "separation_output_handler"}
    if p.get("first_sample_zero"):
        cfg["FixedIntervalSamplingEventHandler"]["first_event_time_zero"] = "True"
    eoc_handler = {"periodic": "single_independent_active_periodic_direction_end_of_chain_event_handler",
                   "sequential": "single_independent_active_sequential_direction_end_of_chain_event_handler"}[
        p.get("eoc", "periodic")]
    cfg["EndOfChain"] = {"create": "end_of_chain, " + all_motion, "trash": "end_of_chain, " + all_motion,
                         "event_handler": eoc_handler}
    from jellyfysh.base.strings import to_camel_case
    cfg[to_camel_case(eoc_handler)] = {"chain_time": repr(p.get("chain_time", 0.7))}
    if p.get("eoc") == "sequential":
        cfg[to_camel_case(eoc_handler)]["delta_phi_degree"] = repr(p.get("delta_phi_degree", 37.0))
    everything = "end_of_chain, " + all_motion + ", sampling, end_of_run" + (", dumping" if dump else "")
    cfg["EndOfRun"] = {"create": "end_of_run", "trash": everything, "event_handler": "final_time_end_of_run_event_handler"}
    cfg["FinalTimeEndOfRunEventHandler"] = {"end_of_run_time": repr(float(p.get("end", 20.0)))}
    cfg["StartOfRun"] = {"trash": "start_of_run", "create": everything.replace(", end_of_run", "") + ", end_of_run",
                         "event_handler": "initial_chain_start_of_run_event_handler"}
    cfg["InitialChainStartOfRunEventHandler"] = {"initial_direction_of_motion": str(p.get("initial_direction", 0)),
                                                 "speed": repr(p.get("speed", 1.0)),
                                                 "initial_active_identifier": str(p.get("initial_active", 0))}
    if dump:
        cfg["Dumping"] = {"create": "dumping", "trash": "dumping", "event_handler": "fixed_interval_dumping_event_handler"}
        cfg["FixedIntervalDumpingEventHandler"] = {"dumping_interval": repr(dump), "output_handler": "dumping_output_handler"}
        cfg["DumpingOutputHandler"] = {"filename": os.path.join(workdir, "dump.dat")}
    cfg["TreeStateHandler"] = {"physical_state": "tree_physical_state", "lifting_state": "tree_lifting_state"}
    cfg["InputOutputHandler"] = {"output_handlers": "separation_output_handler" + (", dumping_output_handler" if dump else "")}
    if p.get("positions"):
        cfg["InputOutputHandler"]["input_handler"] = "verif_state_input_handler"
        with open(os.path.join(workdir, "state.json"), "w") as f:
            json.dump({"roots": [[x] for x in p["positions"]]}, f)
        cfg["VerifStateInputHandler"] = {"filename": os.path.join(workdir, "state.json")}
    else:
        cfg["InputOutputHandler"]["input_handler"] = "random_input_handler"
        cfg["RandomInputHandler"] = {"random_node_creator": "atom_random_node_creator", "number_of_root_nodes": str(p["n"])}
    cfg["SeparationOutputHandler"] = {"filename": os.path.join(workdir, "separations.dat")}
    return cfg


def build_config(spec, workdir):
    cfg = _build_config(spec, workdir)
    if spec.get("min_event_handlers"):
        # more particles than the shipped file was written for: every pool must be large enough for the factors of one leg
        for sec in cfg.sections():
            if cfg.has_option(sec, "number_event_handlers"):
                cfg.set(sec, "number_event_handlers", str(max(int(cfg.get(sec, "number_event_handlers")),
                                                              int(spec["min_event_handlers"]))))
    if spec.get("eoc_deactivates_warmup_sampling"):
        # an end-of-chain tagger (ActiveGlobalStateInStateTagger) that carries a deactivate list: a second, 'warm-up' sampling
        # tagger runs until the first end of chain, which deactivates and trashes it; the main sampling tagger keeps naming it
        # in its create list, which must yield nothing once it is deactivated
        t = cfg.get("TagActivator", "taggers")
        cfg.set("TagActivator", "taggers", t.rstrip().rstrip(",") + ",\nwarmup_sampling (no_in_state_tagger)")
        cfg.add_section("WarmupSampling")
        cfg.set("WarmupSampling", "create", "warmup_sampling")
        cfg.set("WarmupSampling", "trash", "warmup_sampling")
        cfg.set("WarmupSampling", "event_handler", "warmup_sampling_event_handler (fixed_interval_sampling_event_handler)")
        cfg.add_section("WarmupSamplingEventHandler")
        cfg.set("WarmupSamplingEventHandler", "sampling_interval", "0.0931")
        cfg.set("WarmupSamplingEventHandler", "output_handler", cfg.get("FixedIntervalSamplingEventHandler", "output_handler"))
        cfg.set("Sampling", "create", cfg.get("Sampling", "create") + ", warmup_sampling")
        cfg.set("Sampling", "trash", cfg.get("Sampling", "trash") + ", warmup_sampling")
        cfg.set("StartOfRun", "create", cfg.get("StartOfRun", "create") + ", warmup_sampling")
        cfg.set("EndOfRun", "trash", cfg.get("EndOfRun", "trash") + ", warmup_sampling")
        cfg.set("EndOfChain", "trash", cfg.get("EndOfChain", "trash") + ", warmup_sampling")
        cfg.set("EndOfChain", "deactivate", "warmup_sampling")
    if spec.get("repeat_trash_tags"):
        # a tag named twice in a trash list is accepted by the activator and harmless (the second trash of the same handler
        # only bumps its lazy-deletion counter / finds nothing to remove); every tag after it must still be honoured. The
        # pools get spare handlers so that a candidate that wrongly survives can meet a re-activated factor.
        for sec in cfg.sections():
            if cfg.has_option(sec, "trash"):
                tags = [t.strip() for t in cfg.get(sec, "trash").split(",") if t.strip()]
                if len(tags) >= 2:
                    cfg.set(sec, "trash", ", ".join([tags[0]] + tags))
            if cfg.has_option(sec, "number_event_handlers") and cfg.has_option(sec, "trash"):
                cfg.set(sec, "number_event_handlers", str(int(cfg.get(sec, "number_event_handlers")) + 3))
    return cfg


def _build_config(spec, workdir):
    from vf import verif_input_handlers
    verif_input_handlers.register()
    os.makedirs(workdir, exist_ok=True)
    if spec.get("dump_interval") and spec["kind"] != "with_dump":
        inner = dict(spec)
        di = inner.pop("dump_interval")
        return add_dumping(_build_config(inner, workdir), di, workdir)
    if spec["kind"] == "shipped":
        cfg = shipped(spec["name"], workdir, spec.get("end"), spec.get("overrides"))
        if spec.get("multi_process_cores"):
            items = dict(cfg.items("SingleProcessMediator"))
            cfg.remove_section("SingleProcessMediator")
            cfg.set("Run", "mediator", "multi_process_mediator")
            cfg.add_section("MultiProcessMediator")
            for k, v in items.items():
                cfg.set("MultiProcessMediator", k, v)
            cfg.set("MultiProcessMediator", "number_cores", str(spec["multi_process_cores"]))
        return cfg
    if spec["kind"] == "spheres":
        cfg = gen_spheres(spec["params"], workdir)
        for sec, opts in (spec.get("overrides") or {}).items():
            if not cfg.has_section(sec):
                cfg.add_section(sec)
            for k, v in opts.items():
                cfg.set(sec, k, str(v))
        return cfg
    if spec["kind"] == "molecules":
        cfg = gen_molecules(spec["params"], workdir)
        if spec.get("multi_process_cores_generated"):
            items = dict(cfg.items("SingleProcessMediator"))
            cfg.remove_section("SingleProcessMediator")
            cfg.set("Run", "mediator", "multi_process_mediator")
            cfg.add_section("MultiProcessMediator")
            for k, v in items.items():
                cfg.set("MultiProcessMediator", k, v)
            cfg.set("MultiProcessMediator", "number_cores", str(spec["multi_process_cores_generated"]))
        return cfg
    raise ValueError(spec["kind"])


def build_mediator(cfg):
    """Exactly what jellyfysh.run.main does between reading the config and mediator.run()."""
    import jellyfysh.setting as setting
    from jellyfysh.activator.tagger.factor_type_maps import FactorTypeMaps
    from jellyfysh.base import factory
    from jellyfysh.base.strings import to_camel_case
    setting.reset()
    FactorTypeMaps._instance = None
    factory.used_sections.clear() if hasattr(factory.used_sections, "clear") else None
    factory.build_from_config(cfg, to_camel_case(cfg.get("Run", "setting")), "jellyfysh.setting")
    mediator = factory.build_from_config(cfg, to_camel_case(cfg.get("Run", "mediator")), "jellyfysh.mediator")
    unused = [s for s in cfg.sections() if s not in factory.used_sections and s != "Run"]
    return mediator, unused


# -- generated molecules (composite objects of k point masses) with leaf <-> root mode switching --------------------------
def gen_molecules(p, workdir):
    """p: dict(dim=3, L, n (molecules), k (atoms per molecule), r0, k_bond, rep_prefactor, rep_power, switching(bool),
    chain_time, switch_leaf, switch_root, sampling_interval, end, scheduler, positions: [[atom pos...] per molecule])
    Intra-molecular harmonic bonds i-(i+1), inter-molecular inverse-power repulsion between all atom pairs."""
    cfg = ConfigParser()
    dim, L, n, k = p.get("dim", 3), p["L"], p["n"], p["k"]
    cfg["Run"] = {"mediator": "single_process_mediator", "setting": "hypercubic_setting"}
    cfg["HypercubicSetting"] = {"system_length": repr(L), "beta": repr(p.get("beta", 1.0)), "dimension": str(dim)}
    cfg["SingleProcessMediator"] = {"state_handler": "tree_state_handler", "scheduler": p.get("scheduler", "heap_scheduler"),
                                    "activator": "tag_activator", "input_output_handler": "input_output_handler"}
    sw = p.get("switching", True)
    leaf = "harmonic_leaf, repulsive_leaf"
    root = "repulsive_root"
    taggers = ["harmonic_leaf (factor_type_map_in_state_tagger)", "repulsive_leaf (factor_type_map_in_state_tagger)"]
    if sw:
        taggers += ["repulsive_root (factor_type_map_in_state_tagger)", "leaf_to_root (active_root_unit_in_state_tagger)",
                    "root_to_leaf (active_root_unit_in_state_tagger)"]
    taggers += ["sampling (no_in_state_tagger)", "end_of_chain (active_global_state_in_state_tagger)",
                "end_of_run (no_in_state_tagger)", "start_of_run (no_in_state_tagger)"]
    cfg["TagActivator"] = {"taggers": ",\n".join(taggers)}
    with open(os.path.join(workdir, "factors.txt"), "w") as f:
        for i in range(k - 1):
            f.write(f"[{i}, {i + 1}], Harmonic\n")
        for i in range(k):
            for j in range(k):
                f.write(f"[{i}, {k + j}], Repulsive\n")
    cfg["FactorTypeMaps"] = {"filename": os.path.join(workdir, "factors.txt")}
    cfg["HarmonicLeaf"] = {"create": leaf, "trash": leaf, "event_handler": "harmonic_event_handler (two_leaf_unit_event_handler)",
                           "number_event_handlers": "2", "factor_type_maps": "factor_type_maps",
                           "factor_type_maps_label": "harmonic"}
    cfg["HarmonicEventHandler"] = {"potential": "harmonic_potential (displaced_even_power_potential)"}
    cfg["HarmonicPotential"] = {"equilibrium_separation": repr(p.get("r0", 0.1)), "prefactor": repr(p.get("k_bond", 200.0)),
                                "power": "2"}
    cfg["RepulsiveLeaf"] = {"create": leaf, "trash": leaf,
                            "event_handler": "repulsive_event_handler (two_leaf_unit_event_handler)",
                            "number_event_handlers": str(max(1, k * (n - 1))), "factor_type_maps": "factor_type_maps",
                            "factor_type_maps_label": "repulsive"}
    cfg["RepulsiveEventHandler"] = {"potential": "repulsive_potential (inverse_power_potential)"}
    cfg["RepulsivePotential"] = {"prefactor": repr(p.get("rep_prefactor", 1e-6)), "power": repr(float(p.get("rep_power", 6)))}
    if sw:
        cfg["RepulsiveRoot"] = {"create": root, "trash": root, "factor_type_maps": "factor_type_maps",
                                "factor_type_maps_label": "repulsive", "number_event_handlers": str(max(1, k * k * (n - 1))),
                                "event_handler": "repulsive_root_event_handler (root_unit_active_two_leaf_unit_event_handler)"}
        cfg["RepulsiveRootEventHandler"] = {"potential": "repulsive_potential (inverse_power_potential)"}
        cfg["RootToLeaf"] = {"create": leaf + ", leaf_to_root, end_of_chain", "trash": root + ", root_to_leaf, end_of_chain",
                             "activate": leaf + ", leaf_to_root", "deactivate": root + ", root_to_leaf",
                             "event_handler": "root_to_leaf_mode (root_leaf_unit_active_switcher)"}
        cfg["RootToLeafMode"] = {"chain_length": repr(p.get("switch_leaf", 0.7)), "aim_mode": "leaf_unit_active"}
        cfg["LeafToRoot"] = {"trash": leaf + ", leaf_to_root, end_of_chain", "create": root + ", root_to_leaf, end_of_chain",
                             "activate": root + ", root_to_leaf", "deactivate": leaf + ", leaf_to_root",
                             "event_handler": "leaf_to_root_mode (root_leaf_unit_active_switcher)"}
        cfg["LeafToRootMode"] = {"chain_length": repr(p.get("switch_root", 0.69)), "aim_mode": "root_unit_active"}
    cfg["Sampling"] = {"create": "sampling", "trash": "sampling", "event_handler": "fixed_interval_sampling_event_handler"}
    cfg["FixedIntervalSamplingEventHandler"] = {"sampling_interval": repr(p.get("sampling_interval", 0.5)),
                                                "output_handler": "separation_output_handler"}
    allm = leaf + (", " + root if sw else "")
    cfg["EndOfChain"] = {"create": "end_of_chain, " + allm, "trash": "end_of_chain, " + allm,
                         "event_handler": "single_independent_active_periodic_direction_end_of_chain_event_handler"}
    cfg["SingleIndependentActivePeriodicDirectionEndOfChainEventHandler"] = {"chain_time": repr(p.get("chain_time", 0.79))}
    cfg["EndOfRun"] = {"create": "end_of_run", "trash": allm + (", leaf_to_root, root_to_leaf" if sw else "")
                       + ", end_of_chain, sampling, end_of_run", "event_handler": "final_time_end_of_run_event_handler"}
    cfg["FinalTimeEndOfRunEventHandler"] = {"end_of_run_time": repr(float(p.get("end", 50.0)))}
    cfg["StartOfRun"] = {"trash": "start_of_run", "event_handler": "initial_chain_start_of_run_event_handler",
                         "create": leaf + ", sampling, " + ("leaf_to_root, " if sw else "") + "end_of_run, end_of_chain"}
    if sw:
        cfg["StartOfRun"]["activate"] = leaf + ", sampling, leaf_to_root, end_of_run, end_of_chain"
        cfg["StartOfRun"]["deactivate"] = "root_to_leaf, " + root
    cfg["InitialChainStartOfRunEventHandler"] = {"initial_direction_of_motion": str(p.get("initial_direction", 0)),
                                                 "speed": repr(p.get("speed", 1.0)),
                                                 "initial_active_identifier": f"{p.get('initial_molecule', 0)}, {p.get('initial_atom', 0)}"}
    cfg["TreeStateHandler"] = {"physical_state": "tree_physical_state", "lifting_state": "tree_lifting_state"}
    cfg["InputOutputHandler"] = {"output_handlers": "separation_output_handler", "input_handler": "verif_state_input_handler"}
    with open(os.path.join(workdir, "state.json"), "w") as f:
        json.dump({"roots": p["positions"]}, f)
    cfg["VerifStateInputHandler"] = {"filename": os.path.join(workdir, "state.json")}
    cfg["SeparationOutputHandler"] = {"filename": os.path.join(workdir, "separations.dat")}
    return cfg


def add_dumping(cfg, interval, workdir):
    """Add a fixed-interval dumping tagger to any configuration (the way power_bounded_dump.ini does)."""
    tag = cfg.get("TagActivator", "taggers")
    if "dumping" in tag:
        cfg.set("FixedIntervalDumpingEventHandler", "dumping_interval", repr(interval))
        cfg.set("DumpingOutputHandler", "filename", os.path.join(workdir, "dump.dat"))
        return cfg
    cfg.set("TagActivator", "taggers", tag.rstrip().rstrip(",") + ",\ndumping (no_in_state_tagger)")
    cfg["Dumping"] = {"create": "dumping", "trash": "dumping", "event_handler": "fixed_interval_dumping_event_handler"}
    cfg["FixedIntervalDumpingEventHandler"] = {"dumping_interval": repr(interval), "output_handler": "dumping_output_handler"}
    cfg["DumpingOutputHandler"] = {"filename": os.path.join(workdir, "dump.dat")}
    for sec, opt in (("StartOfRun", "create"), ("EndOfRun", "trash")):
        cfg.set(sec, opt, cfg.get(sec, opt).rstrip().rstrip(",") + ", dumping")
    if cfg.has_option("StartOfRun", "activate"):
        cfg.set("StartOfRun", "activate", cfg.get("StartOfRun", "activate").rstrip().rstrip(",") + ", dumping")
    cfg.set("InputOutputHandler", "output_handlers", cfg.get("InputOutputHandler", "output_handlers") + ", dumping_output_handler")
    return cfg
