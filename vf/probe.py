"""E3: the probe bus - runs the REAL mediator loop with wrappers at public boundaries and streams events to monitors.

Nothing in the repository is edited: the mediator's references to its four collaborators are replaced by transparent
proxies after the repository's factory has built everything, and every event handler instance gets instance-level
wrappers around send_event_time / send_out_state.  Monitors only ever see VALUE snapshots (tuples of floats)."""
import functools
import math
import os
import random
import time as _time

from vf import core


class StopProbe(Exception):
    pass


# -- value snapshots -----------------------------------------------------------------------------------------------------
def tt(ts):
    return None if ts is None else (ts.quotient, ts.remainder)


def snap_unit(u):
    return (tuple(u.position), None if u.velocity is None else tuple(u.velocity), tt(u.time_stamp),
            None if u.charge is None else tuple(sorted(u.charge.items())))


def snap_branches(cnodes, out=None, tree=None, parent=None):
    """identifier -> (position, velocity, time stamp, charge); tree: identifier -> (parent, weight)."""
    out = {} if out is None else out
    for c in cnodes:
        ident = tuple(c.value.identifier)
        out[ident] = snap_unit(c.value)
        if tree is not None:
            tree[ident] = (parent, c.weight, tuple(tuple(ch.value.identifier) for ch in c.children))
        if c.children:
            snap_branches(c.children, out, tree, ident)
    return out


def tsub(a, b):
    """(q,r) - (q,r) as float, computed like Time.__sub__ but on plain tuples."""
    return (a[0] - b[0]) + (a[1] - b[1])


def tless(a, b):
    return a[0] < b[0] or (a[0] == b[0] and a[1] < b[1])


class Proxy(object):
    """Transparent proxy: selected methods are intercepted, everything else is delegated."""

    def __init__(self, real, hooks):
        object.__setattr__(self, "_real", real)
        object.__setattr__(self, "_hooks", hooks)

    def __getattr__(self, name):
        h = object.__getattribute__(self, "_hooks").get(name)
        if h is not None:
            return h
        return getattr(object.__getattribute__(self, "_real"), name)

    def __setattr__(self, name, value):
        setattr(object.__getattribute__(self, "_real"), name, value)


class Bus(object):
    """One instrumented run."""

    def __init__(self, mediator, monitors, max_events=None, max_seconds=None, acc=None, label=""):
        self.mediator = mediator
        self.monitors = monitors
        self.acc = acc
        self.label = label
        self.max_events = max_events
        self.deadline = None if max_seconds is None else _time.time() + max_seconds
        self.stopped_by = None
        self.sh = mediator._state_handler
        self.sched = mediator._scheduler
        self.act = mediator._activator
        self.io = mediator._input_output_handler
        self.handlers = list(self.act.get_event_handlers())
        self.taggers = list(getattr(self.act, "_taggers", []))   # read-only white-box access: there is no public accessor
        self.tagger_of = {}
        for t in self.taggers:
            for h in t.get_event_handlers():
                self.tagger_of[id(h)] = t
        self.hname = {id(h): h.__class__.__name__ for h in self.handlers}
        self.last_pushed = {}        # id(handler) -> (q, r) of the candidate it last pushed
        self.last_in_state = {}      # id(handler) -> snapshot at entry of its last send_event_time
        self.pending = {}            # id(handler) -> in-state identifiers, reconstructed from activator return values
        self.live = {}               # id(handler) -> (q, r) of its candidate that was pushed and neither trashed nor returned
        self.n_events = 0
        self.n_legs = 0
        self.last_commit_time = None
        self.current_handler = None
        self.last_returned = None
        self.legal = True
        self.multi_process = type(mediator).__name__ == "MultiProcessMediator"
        self._mpq = []
        self._install()

    # -- helpers for monitors ---------------------------------------------------------------------------------------
    def full_state(self, with_tree=False):
        tree = {} if with_tree else None
        s = snap_branches(self.sh.extract_global_state(), tree=tree)
        return (s, tree) if with_tree else s

    def tag_of(self, handler):
        t = self.tagger_of.get(id(handler))
        return None if t is None else t.tag

    def emit(self, name, *args):
        for m in self.monitors:
            f = getattr(m, name, None)
            if f is not None:
                f(self, *args)

    # -- installation ---------------------------------------------------------------------------------------------------
    def _install(self):
        bus = self
        sh, sched, act, io = self.sh, self.sched, self.act, self.io

        def extract_active_global_state():
            if bus.max_events is not None and bus.n_events >= bus.max_events:
                bus.stopped_by = "event budget"
                raise StopProbe()
            if bus.deadline is not None and _time.time() > bus.deadline:
                bus.stopped_by = "time budget"
                raise StopProbe()
            r = sh.extract_active_global_state()
            bus.n_legs += 1
            bus.emit("on_active_state", r)
            return r

        def insert_into_global_state(out_state):
            h = bus.last_returned
            T = bus.last_pushed.get(id(h))
            bus.emit("before_commit", h, T, out_state)
            sh.insert_into_global_state(out_state)
            bus.n_events += 1
            bus.emit("after_commit", h, T, out_state)
            bus.last_commit_time = T

        def extract_from_global_state(identifier):
            r = sh.extract_from_global_state(identifier)
            if bus._mpq:
                # multi-process mediator: the handlers run in worker processes, so the in-state is observed where the mediator
                # builds it (the extractions directly after the activator call, in the order of the returned dictionary)
                head = bus._mpq[0]
                head[2].append(r)
                if len(head[2]) == head[1]:
                    bus.last_in_state[id(head[0])] = snap_branches(head[2])
                    bus._mpq.pop(0)
            bus.emit("on_extract", identifier, r)
            return r

        def get_event_handlers_to_run(active, preceding):
            r = act.get_event_handlers_to_run(active, preceding)
            if bus.multi_process:
                bus._mpq = [[h, len(ids), []] for h, ids in r.items() if ids]
            for h, ids in r.items():
                bus.pending[id(h)] = (h, ids)
            bus.emit("on_activator", active, preceding, r)
            return r

        def get_trashable_events(preceding):
            r = act.get_trashable_events(preceding)
            for h in r:
                bus.pending.pop(id(h), None)
                bus.live.pop(id(h), None)
            bus.emit("on_trash", preceding, r)
            return r

        def push_event(time, handler):
            bus.last_pushed[id(handler)] = (time.quotient, time.remainder)
            bus.live[id(handler)] = (time.quotient, time.remainder)
            bus.emit("on_push", handler, (time.quotient, time.remainder))
            return sched.push_event(time, handler)

        def get_succeeding_event():
            h = sched.get_succeeding_event()
            bus.last_returned = h
            bus.emit("on_get", h)
            bus.live.pop(id(h), None)
            return h

        def write(name, *args):
            bus.emit("on_write", name, args)
            return io.write(name, *args)

        m = self.mediator
        m._state_handler = Proxy(sh, {"extract_active_global_state": extract_active_global_state,
                                      "insert_into_global_state": insert_into_global_state,
                                      "extract_from_global_state": extract_from_global_state})
        m._activator = Proxy(act, {"get_event_handlers_to_run": get_event_handlers_to_run,
                                   "get_trashable_events": get_trashable_events})
        m._scheduler = Proxy(sched, {"push_event": push_event, "get_succeeding_event": get_succeeding_event})
        m._input_output_handler = Proxy(io, {"write": write})
        for h in self.handlers:
            self._wrap_handler(h)

    def _wrap_handler(self, h):
        bus = self
        set_ = h.send_event_time
        sos_ = h.send_out_state

        @functools.wraps(set_)
        def send_event_time(*args):
            snap = None
            if args and args[0] is not None:
                snap = snap_branches(args[0])
                bus.last_in_state[id(h)] = snap
            bus.emit("before_send_event_time", h, snap)
            r = set_(*args)
            bus.emit("after_send_event_time", h, snap, r)
            return r

        @functools.wraps(sos_)
        def send_out_state(*args):
            bus.emit("before_send_out_state", h, args)
            r = sos_(*args)
            bus.emit("after_send_out_state", h, args, r)
            return r

        h.send_event_time = send_event_time
        h.send_out_state = send_out_state

    # -- run ------------------------------------------------------------------------------------------------------------
    def run(self):
        from jellyfysh.base.exceptions import EndOfRun
        try:
            self.emit("on_start")
            try:
                self.mediator.run()
            except EndOfRun:
                self.stopped_by = "end of run"
            except StopProbe:
                pass
            self.emit("on_end")
        finally:
            # always: the multi-process mediator's workers are not daemonic and would outlive an aborted run
            try:
                self.mediator.post_run()
            except Exception:
                pass
        return self.stopped_by


def run_scenario(acc, spec, monitors_factory, seed=0, max_events=None, max_seconds=None, workdir=None):
    """Build the scenario with the repository's factory, attach monitors, run. Returns the bus."""
    import contextlib
    import io
    from vf import scenario
    workdir = workdir or os.path.join(core.WORK, f"run-{os.getpid()}-{abs(hash(str(spec))) % 10**8}")
    os.makedirs(workdir, exist_ok=True)
    cfg = scenario.build_config(spec, workdir)
    random.seed(f"scenario:{seed}:{spec.get('name', spec['kind'])}")
    log_restore = None
    if spec.get("debug_logging"):
        # as `jellyfysh -vv --logfile /dev/null`: every `if self._logger_enabled_for_debug` branch of the mediator, the state
        # handler, the scheduler, the activator and the handlers runs (the flags are read when the objects are constructed)
        import logging
        root = logging.getLogger("")
        handler = logging.StreamHandler(open(os.devnull, "w"))
        handler.setLevel(logging.DEBUG)
        handler.setFormatter(logging.Formatter("%(asctime)s - %(levelname)s - %(name)s: %(message)s"))
        log_restore = (root, root.level, handler)
        root.setLevel(logging.DEBUG)
        root.addHandler(handler)
    try:
        return _run_scenario(acc, spec, cfg, monitors_factory, seed, max_events, max_seconds, workdir)
    finally:
        if log_restore:
            root, level, handler = log_restore
            root.setLevel(level)
            root.removeHandler(handler)
            handler.stream.close()


def _run_scenario(acc, spec, cfg, monitors_factory, seed, max_events, max_seconds, workdir):
    import contextlib
    import io
    from vf import scenario
    try:
        with contextlib.redirect_stdout(io.StringIO()):
            mediator, unused = scenario.build_mediator(cfg)
    except Exception as e:  # a scenario that cannot be built is a harness problem, never a verdict
        import traceback
        raise core.Inconclusive(f"scenario {spec.get('name', spec['kind'])} could not be built: "
                                + traceback.format_exc()[-800:])
    if spec.get("heap_counter_preset"):
        # white-box poke (the only state injection besides C06's): every handler's lazy-deletion counter starts just below
        # 2^32, as if that many of its events had been trashed before; the counter-overflow path is then taken during the run
        sched = mediator._scheduler
        if hasattr(sched, "_minimal_valid_counter"):
            for h in mediator._activator.get_event_handlers():
                sched._minimal_valid_counter[h] = 2 ** 32 - int(spec["heap_counter_preset"])
    monitors = monitors_factory()
    bus = Bus(mediator, monitors, max_events=max_events, max_seconds=max_seconds, acc=acc, label=str(spec.get("name", spec["kind"])))
    bus.cfg = cfg
    bus.spec = spec
    bus.seed = seed
    bus.workdir = workdir
    bus.unused_sections = unused
    with contextlib.redirect_stdout(io.StringIO()):
        bus.run()
    return bus
