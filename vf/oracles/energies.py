"""Independent energy functions and the cumulative uphill energy along a straight path (oracle for C02/C03).

Nothing here imports repository code.  Convention: separation s = r_target - r_active; the active unit moves by x along the
unit vector e (axis direction or arbitrary), so s(x) = s - x*e.
"""
import math

INF = math.inf


class Radial(object):
    """U(r) with the radii of its stationary points (sorted) - everything else follows from geometry."""

    def U(self, r):
        raise NotImplementedError

    def stationary_radii(self):
        return []

    def U_inf(self):
        return 0.0


class InversePower(Radial):
    def __init__(self, q, power):
        self.q, self.p = q, power

    def U(self, r):
        if r == 0.0:
            return math.copysign(INF, self.q)
        try:
            return self.q / r ** self.p
        except OverflowError:
            return math.copysign(INF, self.q)

    def dU(self, r):
        return -self.p * self.q / r ** (self.p + 1)


class LennardJones(Radial):
    def __init__(self, k, sigma):
        self.k, self.s = k, sigma

    def U(self, r):
        if r == 0.0:
            return INF
        x = (self.s / r) ** 6
        return self.k * (x * x - x)

    def dU(self, r):
        x = (self.s / r) ** 6
        return self.k * (-12 * x * x + 6 * x) / r

    def stationary_radii(self):
        return [2.0 ** (1.0 / 6.0) * self.s]


class DisplacedEvenPower(Radial):
    def __init__(self, k, r0, power):
        self.k, self.r0, self.p = k, r0, power

    def U(self, r):
        return self.k * (r - self.r0) ** self.p

    def dU(self, r):
        return self.k * self.p * (r - self.r0) ** (self.p - 1)

    def stationary_radii(self):
        return [self.r0]

    def U_inf(self):
        return INF


def breakpoints(s, e_index, radial):
    """Path parameters x >= 0 at which U(s - x e) can change its monotonicity (closest approach and crossings of the
    stationary radii), for motion along axis e_index."""
    sd = s[e_index]
    rho2 = sum(c * c for i, c in enumerate(s) if i != e_index)
    pts = [sd]
    for r0 in radial.stationary_radii():
        h2 = r0 * r0 - rho2
        if h2 > 0:
            h = math.sqrt(h2)
            pts += [sd - h, sd + h]
    return sorted(p for p in pts if p > 0.0), rho2


def U_at(s, e_index, rho2, radial, x):
    d = s[e_index] - x
    return radial.U(math.sqrt(rho2 + d * d))


def uphill(s, e_index, radial, x_end):
    """Cumulative uphill energy E_up(x_end) = sum of the positive increments of U between consecutive breakpoints.
    Returns (E_up, scale) with scale = sum of |U| at the breakpoints used (for tolerances)."""
    pts, rho2 = breakpoints(s, e_index, radial)
    xs = [0.0] + [p for p in pts if p < x_end] + [x_end]
    us = [U_at(s, e_index, rho2, radial, x) if x != INF else radial.U_inf() for x in xs]
    e = 0.0
    for a, b in zip(us, us[1:]):
        if b > a:
            e += b - a
    scale = sum(abs(u) for u in us if u == u and abs(u) != INF)
    # the oracle's own resolution: energy change when a radius moves by a few units in the last place (this dominates next
    # to a potential minimum, where U ~ k (r - r0)^p is itself of the order of k ulp^p)
    noise = 0.0
    for x in xs:
        if x == INF:
            continue
        dd = s[e_index] - x
        r = math.sqrt(rho2 + dd * dd)
        for f in (1 + 2e-15, 1 - 2e-15):
            v = radial.U(r * f)
            u0 = radial.U(r)
            if abs(v) != INF and abs(u0) != INF:
                noise += abs(v - u0)
    return e, scale + 1e9 * noise


def thresholds(s, e_index, radial):
    """Cumulative uphill energies at the breakpoints and at infinity: budgets near these are ill-conditioned."""
    pts, rho2 = breakpoints(s, e_index, radial)
    out = []
    for p in pts:
        out.append(uphill(s, e_index, radial, p)[0])
    out.append(uphill(s, e_index, radial, INF)[0])
    return out


# -- periodic nearest-image 1/r (the scaled bound of the merged-image Coulomb potential) ------------------------------------
def periodic_coulomb_U(q, s, e_index, L, x):
    d = s[e_index] - x
    d = d - L * math.floor(d / L + 0.5)          # nearest image along the direction of motion: in [-L/2, L/2)
    rho2 = sum(c * c for i, c in enumerate(s) if i != e_index)
    r = math.sqrt(rho2 + d * d)
    return q / r if r > 0 else math.copysign(INF, q)


def periodic_coulomb_uphill(q, s, e_index, L, x_end):
    """E_up for U(x) = q / |nearest image of s - x e|, monotone between the points where the wrapped component is 0 or
    +-L/2."""
    sd = s[e_index]
    pts = []
    # wrapped component zero: x = sd + n L ; at +-L/2: x = sd + L/2 + n L
    n0 = math.floor(-sd / L) - 1
    n = n0
    while True:
        for base in (sd + n * L, sd + L / 2 + n * L):
            if 0.0 < base < x_end:
                pts.append(base)
        if sd + n * L > x_end:
            break
        n += 1
        if n - n0 > 10 ** 6:
            break
    xs = [0.0] + sorted(pts) + [x_end]
    us = [periodic_coulomb_U(q, s, e_index, L, x) for x in xs]
    e = 0.0
    for a, b in zip(us, us[1:]):
        if b > a:
            e += b - a
    return e, sum(abs(u) for u in us if abs(u) != INF)


def periodic_coulomb_per_lap(q, s, e_index, L):
    rho2 = sum(c * c for i, c in enumerate(s) if i != e_index)
    near = abs(q) / math.sqrt(rho2) if rho2 > 0 else INF
    far = abs(q) / math.sqrt(rho2 + L * L / 4)
    return near - far
