"""Independent pure-Python Ewald ENERGY of a unit point charge interacting with all periodic images of another unit
charge in a cubic box of length L with a neutralising background (the 'merged image' potential).  The derivative is
obtained by Richardson-extrapolated central differences of this energy, so nothing is shared with the repository's
derivative code (different splitting parameter, larger cut-offs, energy instead of derivative)."""
import math


class Ewald(object):
    def __init__(self, L, alpha=2.2, nreal=4, kmax=7):
        self.L, self.a = L, alpha / L
        self.nreal = nreal
        self.kvecs = []
        for i in range(-kmax, kmax + 1):
            for j in range(-kmax, kmax + 1):
                for k in range(0, kmax + 1):           # half space (k -> -k symmetry), weight 2
                    if (k == 0 and (j < 0 or (j == 0 and i <= 0))):
                        continue
                    n2 = i * i + j * j + k * k
                    if n2 > kmax * kmax:
                        continue
                    w = 2.0 * math.exp(-math.pi ** 2 * n2 / (alpha * alpha)) / n2 / (math.pi * L)
                    if w > 1e-30:
                        self.kvecs.append((i, j, k, w))
        self.images = [(i * L, j * L, k * L) for i in range(-nreal, nreal + 1) for j in range(-nreal, nreal + 1)
                       for k in range(-nreal, nreal + 1)]

    def energy(self, s):
        a = self.a
        e = 0.0
        sx, sy, sz = s
        for ix, iy, iz in self.images:
            x, y, z = sx + ix, sy + iy, sz + iz
            r = math.sqrt(x * x + y * y + z * z)
            ar = a * r
            if ar < 9.0:
                e += math.erfc(ar) / r
        tp = 2.0 * math.pi / self.L
        for i, j, k, w in self.kvecs:
            e += w * math.cos(tp * (i * sx + j * sy + k * sz))
        return e   # the constant -pi/(alpha^2 L) does not depend on s

    def d_active(self, s, d, h=None):
        """dU/dx_active along axis d (separation = target - active, so this is -dU/ds_d), Richardson O(h^6)."""
        r = math.sqrt(sum(c * c for c in s))
        h = h or min(2e-3 * self.L, 0.02 * r)     # stay well inside the radius of convergence around the singularity
        def cd(hh):
            sp = list(s); sm = list(s)
            sp[d] += hh; sm[d] -= hh
            return (self.energy(sp) - self.energy(sm)) / (2 * hh)
        d1, d2, d3 = cd(h), cd(h / 2), cd(h / 4)
        r1 = (4 * d2 - d1) / 3
        r2 = (4 * d3 - d2) / 3
        return -((16 * r2 - r1) / 15)
