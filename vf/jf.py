"""Small helpers to drive the real JeLLyFysh objects from the harness."""


def init_setting(dim, lengths, beta=1.0, cubic=None, roots=2, per_root=1, levels=1):
    """Initialise the real setting package the way the factory + input handler do. Returns 'cubic' or 'cuboid'."""
    import jellyfysh.setting as setting
    from jellyfysh.setting.hypercubic_setting import HypercubicSetting
    from jellyfysh.setting.hypercuboid_setting import HypercuboidSetting
    from jellyfysh.activator.tagger.factor_type_maps import FactorTypeMaps
    setting.reset()
    FactorTypeMaps._instance = None if hasattr(FactorTypeMaps, "_instance") else None
    if cubic is None:
        cubic = len(set(lengths)) == 1
    if cubic:
        HypercubicSetting(beta=beta, dimension=dim, system_length=lengths[0])
    else:
        HypercuboidSetting(beta=beta, dimension=dim, system_lengths=list(lengths))
    setting.set_number_of_root_nodes(roots)
    setting.set_number_of_nodes_per_root_node(per_root)
    setting.set_number_of_node_levels(levels)
    return "cubic" if cubic else "cuboid"


def reset_setting():
    import jellyfysh.setting as setting
    setting.reset()
