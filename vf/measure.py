"""Lebesgue measure of the level sets of a piecewise-constant function on [0,1), from the code's own answers."""
import math

TOP = 1 - 2.0 ** -53


def measure_1d(f, hints=(), grid=256):
    """Returns (measure dict answer->length, set of answers seen at probes, {'u0':..,'utop':..}, #evaluations).

    Probes: regular grid, the end points 0, 2^-53, 1-2^-53, and every hint +-1e-13; between neighbouring probes with
    different answers the change points are located by recursive bisection down to adjacent floats."""
    nev = [0]

    def g(u):
        nev[0] += 1
        return f(u)

    probes = {0.0, 2.0 ** -53, TOP}
    probes.update(i / grid for i in range(grid))
    for h in hints:
        for d in (-1e-13, 0.0, 1e-13):
            if 0.0 <= h + d <= TOP:
                probes.add(h + d)
    probes = sorted(probes)
    ans = [g(u) for u in probes]
    meas = {}
    ends = {"u0": ans[0], "utop": ans[-1]}
    left_u, left_a = probes[0], ans[0]
    for u, a in list(zip(probes[1:], ans[1:])) + [(1.0, left_a if False else None)]:
        if a is None:
            meas[left_a] = meas.get(left_a, 0.0) + (1.0 - left_u)
            break
        if a != left_a:
            stack = [(left_u, left_a, u, a)]
            cuts = []
            while stack:
                x0, a0, x1, a1 = stack.pop()
                if math.nextafter(x0, 2.0) >= x1 or x1 - x0 <= 2e-16 * max(x1, 1e-300):
                    cuts.append((x0, a0, x1, a1))
                    continue
                xm = (x0 + x1) / 2
                am = g(xm)
                if am != a0:
                    stack.append((x0, a0, xm, am))
                if am != a1:
                    stack.append((xm, am, x1, a1))
            cuts.sort(key=lambda c: c[0])
            pos, cur = left_u, left_a
            for x0, a0, x1, a1 in cuts:
                meas[cur] = meas.get(cur, 0.0) + (x1 - pos)
                pos, cur = x1, a1
            meas[cur] = meas.get(cur, 0.0) + (u - pos)
            left_u, left_a = u, a
        else:
            meas[left_a] = meas.get(left_a, 0.0) + (u - left_u)
            left_u = u
    return meas, set(ans), ends, nev[0]
