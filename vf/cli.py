"""./check <Cxx> [--tier quick|thorough] [--replay FILE]"""
import argparse
import importlib
import json
import os
import sys
import traceback

from vf import core


def main():
    ap = argparse.ArgumentParser()
    ap.add_argument("prop")
    ap.add_argument("--tier", default=os.environ.get("VERIF_TIER", "quick"), choices=["quick", "thorough"])
    ap.add_argument("--replay")
    a = ap.parse_args()
    prop = a.prop.upper()
    seed = int(os.environ.get("VERIF_SEED", "0"))
    mod = importlib.import_module(f"vf.monitors.{prop.lower()}")
    if a.replay:
        with open(a.replay) as f:
            w = json.load(f)
        core.assert_repo_import()
        acc = core.Acc()
        mod.replay(acc, w)
        if acc.violations:
            for v in acc.violations:
                print(f"    witness [{v['key']}] {v['what']}")
            print(f"VIOLATION property={prop} replay={a.replay}")
            sys.exit(1)
        print(f"[{prop}] replay of {a.replay}: no violation reproduced")
        sys.exit(0)
    ctx = core.Ctx(prop, a.tier, seed, level=getattr(mod, "LEVEL", "exploration"))
    try:
        core.assert_repo_import()
        mod.main(ctx)
    except core.Inconclusive as e:
        ctx.inconclusive.append(str(e))
    except Exception:
        ctx.inconclusive.append("harness exception: " + traceback.format_exc()[-1500:])
    sys.exit(ctx.finish())


if __name__ == "__main__":
    main()
