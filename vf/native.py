"""E1: build the three cffi extensions from the working tree (plain or ASan+UBSan) and inject them under the real classes.

Nothing is written into the repository: the cffi wrapper is regenerated with the repository's own *_build.py
(ffi_builder.emit_c_code), compiled with clang together with the repository's .c file into /verif/.build/<hash>/ and
put into sys.modules under its canonical name BEFORE jellyfysh imports it.
"""
import fcntl
import glob
import hashlib
import importlib.machinery
import importlib.util
import os
import runpy
import subprocess
import sys
import sysconfig

HOME = os.environ.get("VERIF_HOME", os.path.dirname(os.path.dirname(os.path.abspath(__file__))))
REPO = os.environ.get("VERIF_REPO", "/repo")
BUILD = os.path.join(HOME, ".build")

EXT = {
    "heap": ("jellyfysh/scheduler/heap_scheduler", "heap_build.py", "heap.c",
             "jellyfysh.scheduler.heap_scheduler._heap"),
    "merged": ("jellyfysh/potential/merged_image_coulomb_potential", "merged_image_coulomb_potential_build.py",
               "merged_image_coulomb_potential.c",
               "jellyfysh.potential.merged_image_coulomb_potential._merged_image_coulomb_potential"),
    "bounding": ("jellyfysh/potential/inverse_power_coulomb_bounding_potential",
                 "inverse_power_coulomb_bounding_potential_build.py", "inverse_power_coulomb_bounding_potential.c",
                 "jellyfysh.potential.inverse_power_coulomb_bounding_potential._inverse_power_coulomb_bounding_potential"),
}
FLAGS = {
    "plain": ["-O2", "-g0"],
    "asan": ["-O1", "-g", "-fsanitize=address,undefined", "-fno-sanitize-recover=all", "-fno-omit-frame-pointer",
             "-shared-libasan"],
}


def asan_runtime():
    c = glob.glob("/usr/lib/llvm-14/lib/clang/14*/lib/linux/libclang_rt.asan-x86_64.so")
    return c[0] if c else None


def asan_env(log_path=None, halt=True):
    """Environment for a python subprocess that loads ASan+UBSan builds of the extensions."""
    opts = "detect_leaks=0:abort_on_error=0:exitcode=97:allocator_may_return_null=1"
    opts += ":halt_on_error=1" if halt else ":halt_on_error=0"
    if log_path:
        opts += f":log_path={log_path}"
    ub = "print_stacktrace=1:halt_on_error=1:exitcode=98" + (f":log_path={log_path}" if log_path else "")
    return {"LD_PRELOAD": asan_runtime() or "", "ASAN_OPTIONS": opts, "UBSAN_OPTIONS": ub, "VERIF_NATIVE": "asan",
            "ASAN_SYMBOLIZER_PATH": "/usr/bin/llvm-symbolizer-14"}


def _sha(*parts):
    h = hashlib.sha256()
    for p in parts:
        h.update(p if isinstance(p, bytes) else str(p).encode())
    return h.hexdigest()[:20]


def _locked_build(outdir, product, recipe):
    """Build `product` inside outdir exactly once even if many workers ask at the same time."""
    os.makedirs(outdir, exist_ok=True)
    target = os.path.join(outdir, product)
    if os.path.exists(target):
        return target
    with open(os.path.join(outdir, ".lock"), "w") as lk:
        fcntl.flock(lk, fcntl.LOCK_EX)
        if not os.path.exists(target):
            recipe(outdir, target + ".tmp")
            os.replace(target + ".tmp", target)
    return target


def build(ext, flavor="plain"):
    """Return the path of the freshly built (or cached) shared object of extension `ext` for the working tree."""
    d, build_py, csrc, modname = EXT[ext]
    srcdir = os.path.join(REPO, d)
    sources = b"".join(open(p, "rb").read() for p in sorted(glob.glob(os.path.join(srcdir, "*.[ch]")))
                       + [os.path.join(srcdir, build_py)])
    key = _sha(sources, flavor, " ".join(FLAGS[flavor]), sys.version)
    outdir = os.path.join(BUILD, f"{ext}-{flavor}-{key}")

    def recipe(outdir, tmp):
        ns = runpy.run_path(os.path.join(srcdir, build_py), run_name="verif_build")
        wrapper = os.path.join(outdir, "wrapper.c")
        import contextlib
        import io
        with contextlib.redirect_stdout(io.StringIO()):
            ns["ffi_builder"].emit_c_code(wrapper)
        inc = sysconfig.get_paths()["include"]
        cmd = ["clang", "-shared", "-fPIC", "-w"] + FLAGS[flavor] + [f"-I{inc}", f"-I{srcdir}", wrapper,
                                                                        os.path.join(srcdir, csrc), "-o", tmp, "-lm"]
        p = subprocess.run(cmd, stdout=subprocess.PIPE, stderr=subprocess.STDOUT)
        if p.returncode != 0:
            raise RuntimeError(f"native build of {ext} ({flavor}) failed:\n{p.stdout.decode()[-3000:]}")

    return _locked_build(outdir, modname.split(".")[-1] + ".abi3.so", recipe)


def inject(exts=("heap", "merged", "bounding"), flavor=None):
    """Load the working-tree builds under their canonical module names (must run before jellyfysh imports them)."""
    flavor = flavor or os.environ.get("VERIF_NATIVE", "plain")
    for ext in exts:
        modname = EXT[ext][3]
        if modname in sys.modules and getattr(sys.modules[modname], "_verif_flavor", None) == flavor:
            continue
        if modname in sys.modules:
            raise RuntimeError(f"{modname} was imported before native.inject()")
        path = build(ext, flavor)
        loader = importlib.machinery.ExtensionFileLoader(modname, path)
        spec = importlib.util.spec_from_file_location(modname, path, loader=loader)
        mod = importlib.util.module_from_spec(spec)
        loader.exec_module(mod)
        mod._verif_flavor = flavor
        mod._verif_path = path
        sys.modules[modname] = mod
    return flavor


def build_driver(name, flavor, extra_sources, extra_flags=()):
    """Build /verif/c/<name>.c together with repository C sources into an executable. flavor: asan|valgrind|fuzzer."""
    src = os.path.join(HOME, "c", name + ".c")
    fl = {"asan": ["-O1", "-g", "-fsanitize=address,undefined", "-fno-sanitize-recover=all", "-fno-omit-frame-pointer"],
          "valgrind": ["-O0", "-g", "-gdwarf-4"],
          "plain": ["-O2"],
          "fuzzer": ["-O1", "-g", "-fsanitize=fuzzer,address,undefined", "-fno-sanitize-recover=all"]}[flavor]
    srcs = [os.path.join(REPO, s) for s in extra_sources]
    blob = b"".join(open(p, "rb").read() for p in [src] + srcs)
    incs = sorted({os.path.dirname(s) for s in srcs})
    for i in incs:
        blob += b"".join(open(p, "rb").read() for p in sorted(glob.glob(os.path.join(i, "*.h"))))
    key = _sha(blob, flavor, " ".join(fl), " ".join(extra_flags))
    outdir = os.path.join(BUILD, f"drv-{name}-{flavor}-{key}")

    def recipe(outdir, tmp):
        cmd = ["clang", "-w"] + fl + list(extra_flags) + [f"-I{i}" for i in incs] + [src] + srcs + ["-o", tmp, "-lm"]
        p = subprocess.run(cmd, stdout=subprocess.PIPE, stderr=subprocess.STDOUT)
        if p.returncode != 0:
            raise RuntimeError(f"driver build {name} ({flavor}) failed:\n{p.stdout.decode()[-3000:]}")

    return _locked_build(outdir, name, recipe)


if __name__ == "__main__":
    if len(sys.argv) > 1 and sys.argv[1] == "prime":
        for e in EXT:
            for f in ("plain", "asan"):
                print(e, f, build(e, f))
