"""Core of the monitoring framework: tiers, seeds, verdicts, evidence, known findings, worker fan-out.

Verdicts are three-valued:
  held on what was observed -> exit 0
  violated                  -> exit 1 and a line "VIOLATION property=<id> replay=<path>"
  inconclusive              -> exit 2 and a line "INCONCLUSIVE property=<id> <why>"
"""
import hashlib
import json
import os
import random
import subprocess
import sys
import time
from concurrent.futures import ThreadPoolExecutor

HOME = os.environ.get("VERIF_HOME", os.path.dirname(os.path.dirname(os.path.abspath(__file__))))
REPO = os.environ.get("VERIF_REPO", "/repo")
# scratch directory: the repository's output handlers split file names at "." and reject paths with more than one dot, so
# the scratch path must not contain any; a checkout under a dotted directory falls back to a per-checkout directory in /tmp
# (scratch only: nothing a later command needs is kept there)
WORK = os.path.join(HOME, "_work") if "." not in HOME else \
    os.path.join("/tmp", "verif-work-" + hashlib.sha1(HOME.encode()).hexdigest()[:10])
PY = "/venv/bin/python"
NPROC = int(os.environ.get("VERIF_NPROC", str(os.cpu_count() or 4)))


def assert_repo_import():
    """Every process that imports jellyfysh checks that it is the working tree, not the stale site-packages copy."""
    import jellyfysh
    f = os.path.realpath(jellyfysh.__file__)
    if not f.startswith(os.path.realpath(REPO) + os.sep):
        raise Inconclusive(f"jellyfysh imported from {f}, not from {REPO}")
    # the C extensions are always the ones built from the working tree (never the stale .so files lying in /repo)
    from vf import native
    native.inject()


class Inconclusive(Exception):
    pass


def rng_for(prop, seed, *case):
    """All randomness derives from (property, VERIF_SEED, case)."""
    return random.Random(f"{prop}:{seed}:" + ":".join(str(c) for c in case))


def h48(obj):
    return int.from_bytes(hashlib.blake2b(repr(obj).encode(), digest_size=6).digest(), "big")


def fhex(x):
    return x.hex() if isinstance(x, float) else x


def jsonable(o):
    if isinstance(o, float):
        if o != o or o in (float("inf"), float("-inf")):
            return repr(o)
        return o
    if isinstance(o, complex):
        return repr(o)
    if isinstance(o, dict):
        return {str(k): jsonable(v) for k, v in o.items()}
    if isinstance(o, (list, tuple, set, frozenset)):
        return [jsonable(v) for v in o]
    if isinstance(o, (int, str, bool)) or o is None:
        return o
    return repr(o)


class Acc:
    """Accumulator used inside workers (and inside the parent for in-process monitors).

    case(key, nontrivial)  - one evaluated case; key identifies the case for the distinct count
    count(name, n)         - monitor counters (what the monitor actually observed)
    violation(key, what, witness) - key names a MECHANISM ('C15:modulo-returns-L'), never a seed or a hash
    sample(obj)            - a written-out case for the evidence file
    """
    MAX_KEYS = 200000
    MAX_VIOL = 40

    def __init__(self):
        self.evaluations = 0
        self.keys = set()
        self.keys_overflow = 0
        self.counters = {}
        self.violations = []
        self.violation_counts = {}
        self.samples = []
        self.notes = []
        self.payload = None     # raw data a worker hands back to its parent (not merged)

    def case(self, key=None, nontrivial=True, n=1):
        self.evaluations += n
        if nontrivial and key is not None:
            if len(self.keys) < self.MAX_KEYS:
                self.keys.add(h48(key))
            else:
                self.keys_overflow += 1

    def count(self, name, n=1):
        self.counters[name] = self.counters.get(name, 0) + n

    def maxi(self, name, v):
        if name not in self.counters or v > self.counters[name]:
            self.counters[name] = v

    def mini(self, name, v):
        if name not in self.counters or v < self.counters[name]:
            self.counters[name] = v

    def violation(self, key, what, witness):
        self.violation_counts[key] = self.violation_counts.get(key, 0) + 1
        if sum(1 for v in self.violations if v["key"] == key) < 5 and len(self.violations) < self.MAX_VIOL:
            self.violations.append({"key": key, "what": what, "witness": jsonable(witness)})

    def sample(self, obj, limit=6):
        if len(self.samples) < limit:
            self.samples.append(jsonable(obj))

    def dump(self):
        return {"evaluations": self.evaluations, "keys": sorted(self.keys), "keys_overflow": self.keys_overflow,
                "counters": self.counters, "violations": self.violations, "violation_counts": self.violation_counts,
                "samples": self.samples, "notes": self.notes, "payload": self.payload}

    def merge(self, d, maxkeys=("max_",), minkeys=("min_",)):
        self.evaluations += d["evaluations"]
        for k in d["keys"]:
            if len(self.keys) < 5 * self.MAX_KEYS:
                self.keys.add(k)
            else:
                self.keys_overflow += 1
        self.keys_overflow += d.get("keys_overflow", 0)
        for k, v in d["counters"].items():
            if isinstance(v, (int, float)) and not isinstance(v, bool):
                if k.startswith(maxkeys):
                    self.maxi(k, v)
                elif k.startswith(minkeys):
                    self.mini(k, v)
                else:
                    self.counters[k] = self.counters.get(k, 0) + v
            elif isinstance(v, list):
                cur = self.counters.setdefault(k, [])
                for x in v:
                    if x not in cur:
                        cur.append(x)
            elif isinstance(v, dict):
                cur = self.counters.setdefault(k, {})
                for kk, vv in v.items():
                    cur[kk] = cur.get(kk, 0) + vv
            else:
                self.counters[k] = v
        for k, n in d["violation_counts"].items():
            self.violation_counts[k] = self.violation_counts.get(k, 0) + n
        for v in d["violations"]:
            if sum(1 for w in self.violations if w["key"] == v["key"]) < 5 and len(self.violations) < self.MAX_VIOL:
                self.violations.append(v)
        for s in d["samples"]:
            self.sample(s, limit=10)
        self.notes.extend(d.get("notes", []))


def load_known():
    p = os.path.join(HOME, "known_findings.json")
    if not os.path.exists(p):
        return {"findings": [], "fixed": []}
    with open(p) as f:
        return json.load(f)


class Ctx(Acc):
    """One run of one check."""

    def __init__(self, prop, tier, seed, level="exploration"):
        super().__init__()
        self.prop, self.tier, self.seed, self.level = prop, tier, seed, level
        self.t0 = time.time()
        self.rule = ""
        self.assumptions = []
        self.required = []      # (counter, minimum)
        self.inconclusive = []  # reasons
        self.extra = {}
        os.makedirs(WORK, exist_ok=True)

    @property
    def quick(self):
        return self.tier == "quick"

    def pick(self, quick, thorough):
        return quick if self.tier == "quick" else thorough

    def require(self, counter, minimum):
        self.required.append((counter, minimum))

    # -- worker fan-out ------------------------------------------------------------------------------------------
    def run_workers(self, target, jobs, timeout=3600, env=None, nproc=None, merge=True, prefix=None,
                    classify_failure=None):
        """Run `target` ("vf.monitors.cXX:func") once per job (a JSON-able kwargs dict), each in a fresh subprocess.

        A worker that dies, times out or prints no result makes the run inconclusive (never 'held', never 'violated').
        Returns the list of raw result dicts (None for failed workers)."""
        results = [None] * len(jobs)
        stamp = f"{self.prop}-{os.getpid()}-{int(time.time() * 1000) % 10**9}"

        def one(i):
            out = os.path.join(WORK, f"{stamp}-{i}.json")
            e = dict(os.environ)
            if env:
                e.update(env)
            cmd = (prefix or []) + [PY, "-m", "vf.worker", target, json.dumps(jobs[i]), out]
            try:
                p = subprocess.run(cmd, cwd=HOME, env=e, timeout=timeout, stdout=subprocess.PIPE,
                                   stderr=subprocess.PIPE)
            except subprocess.TimeoutExpired:
                return i, None, f"watchdog {timeout}s fired for job {i} {jobs[i]}"
            if not os.path.exists(out):
                tail = p.stderr.decode(errors="replace")[-1500:]
                if classify_failure:
                    c = classify_failure(jobs[i], p.returncode, p.stderr.decode(errors="replace"))
                    if c:
                        return i, {"_violation": c}, None
                return i, None, f"worker {i} rc={p.returncode} produced no result: {tail}"
            with open(out) as f:
                r = json.load(f)
            os.unlink(out)
            r["_stderr_tail"] = p.stderr.decode(errors="replace")[-3000:]
            r["_rc"] = p.returncode
            return i, r, None

        with ThreadPoolExecutor(max_workers=nproc or NPROC) as ex:
            for i, r, err in ex.map(one, range(len(jobs))):
                if err:
                    self.inconclusive.append(err)
                    self.count("workers_failed")
                elif "_violation" in r:
                    key, what, witness = r["_violation"]
                    self.violation(key, what, witness)
                    self.count("workers_died_with_report")
                else:
                    results[i] = r
                    self.count("workers_ok")
                    if merge:
                        self.merge(r)
        return results

    # -- finish --------------------------------------------------------------------------------------------------
    def finish(self):
        known = load_known()
        known_keys = {f["key"]: f for f in known.get("findings", []) if f.get("property") == self.prop}
        unknown = [v for v in self.violations if v["key"] not in known_keys]
        unknown_count = sum(n for k, n in self.violation_counts.items() if k not in known_keys)
        lines = []
        for k, f in known_keys.items():
            if self.violation_counts.get(k):
                lines.append(f"KNOWN-FINDING: property={self.prop} {k} {f['what']} (observed {self.violation_counts[k]}x)")
                first = next((v for v in self.violations if v["key"] == k), None)
                if first:
                    lines.append(f"    first observation this run: {first['what'][:600]}")
        replay_paths = []
        if unknown:
            os.makedirs(os.path.join(HOME, "replays"), exist_ok=True)
            rdir = os.environ.get("VERIF_EVIDENCE_DIR", os.path.join(HOME, "replays"))
            os.makedirs(rdir, exist_ok=True)
            seen = set()
            for v in unknown:
                if v["key"] in seen:
                    continue
                seen.add(v["key"])
                name = f"{self.prop}-{self.tier}-{self.seed}-{v['key'].split(':')[-1]}.json"
                path = os.path.join(rdir, name)
                with open(path, "w") as f:
                    json.dump({"property": self.prop, "tier": self.tier, "seed": self.seed, **v}, f, indent=1)
                replay_paths.append((v, path))
        for c, m in self.required:
            if self.counters.get(c, 0) < m:
                self.inconclusive.append(f"required counter {c}={self.counters.get(c, 0)} < {m}")
        # an exception that escaped a monitor is a defect of the harness: what that worker would have observed is unknown
        if self.counters.get("worker_exceptions", 0):
            first = next((n for n in self.notes if n.startswith("worker exception")), "")
            self.inconclusive.append(f"{self.counters['worker_exceptions']} worker(s) died in the harness itself: {first[-600:]}")
        # scenarios the repository's factory refused to build: tolerated only as a small fraction of the workload
        nb = self.counters.get("worker_inconclusive", 0)
        if nb > max(2, 0.05 * self.counters.get("workers_ok", 0)):
            self.inconclusive.append(f"{nb} workers could not build or run their case at all")
        distinct = len(self.keys) + self.keys_overflow
        cov = {"evaluations": int(self.evaluations), "distinct_nontrivial": int(distinct), "rule": self.rule,
               "samples": self.samples[:10] or [], "counters": jsonable(self.counters),
               "required_counters": {c: m for c, m in self.required},
               "known_findings_observed": {k: n for k, n in self.violation_counts.items() if k in known_keys},
               "unlisted_violations": {k: n for k, n in self.violation_counts.items() if k not in known_keys}}
        cov.update(self.extra)
        verdict = "violated" if unknown else ("inconclusive" if self.inconclusive else "held")
        cov["verdict"] = verdict
        if self.inconclusive:
            cov["inconclusive_reasons"] = self.inconclusive[:20]
        if self.notes:
            cov["notes"] = self.notes[:20]
        ev = {"property_id": self.prop, "tier": self.tier, "seed": int(self.seed), "level": self.level,
              "coverage": cov, "assumptions": self.assumptions, "wall_s": round(time.time() - self.t0, 2),
              "violations": int(unknown_count)}
        evdir = os.environ.get("VERIF_EVIDENCE_DIR", os.path.join(HOME, "evidence"))  # redirected only by tools/trymut.sh
        os.makedirs(evdir, exist_ok=True)
        with open(os.path.join(evdir, f"{self.prop}.json"), "w") as f:
            json.dump(ev, f, indent=1, sort_keys=False)
            f.write("\n")
        for ln in lines:
            print(ln)
        print(f"[{self.prop}] tier={self.tier} seed={self.seed} evaluations={self.evaluations} "
              f"distinct_nontrivial={distinct} wall={ev['wall_s']}s verdict={verdict}")
        for k in sorted(self.counters):
            v = self.counters[k]
            if isinstance(v, (int, float)):
                print(f"    {k} = {v}")
        if unknown:
            for v, path in replay_paths:
                print(f"    witness [{v['key']}] {v['what']}")
                print(f"VIOLATION property={self.prop} replay={path}")
            return 1
        if self.inconclusive:
            for r in self.inconclusive[:10]:
                print(f"INCONCLUSIVE property={self.prop} {r}")
            return 2
        return 0
