"""E6: twin-process differential runner.

Recording is done with CLASS-level wrappers (never instance attributes), so that a mediator pickled by the repository's
dumping output handler contains nothing of the harness and a resumed process can install the very same wrappers before
calling the repository's own resume.main().

  python -m vf.twin run    <json spec>    run jellyfysh.run.main() on a generated .ini, record the commit/sample log
  python -m vf.twin resume <json spec>    run jellyfysh.resume.main() on a dump file, record the log
"""
import contextlib
import io
import json
import os
import random
import shutil
import sys

LOG = []
STATE = {"depth": 0, "last_returned": None, "last_pushed": {}, "dumps": 0, "dump_dir": None, "max_events": None,
         "events": 0}


class StopTwin(Exception):
    pass


def _hx(x):
    return x.hex() if isinstance(x, float) else x


def snap(cnodes, out=None):
    out = [] if out is None else out
    for c in cnodes:
        u = c.value
        out.append([list(u.identifier), [_hx(x) for x in u.position],
                    None if u.velocity is None else [_hx(x) for x in u.velocity],
                    None if u.time_stamp is None else [_hx(u.time_stamp.quotient), _hx(u.time_stamp.remainder)]])
        if c.children:
            snap(c.children, out)
    return out


def install():
    """Class-level recording wrappers (idempotent)."""
    from jellyfysh.state_handler.tree_state_handler import TreeStateHandler
    from jellyfysh.scheduler.heap_scheduler import HeapScheduler
    from jellyfysh.scheduler.list_scheduler import ListScheduler
    from jellyfysh.input_output_handler.input_output_handler import InputOutputHandler
    from jellyfysh.input_output_handler.output_handler.dumping_output_handler import DumpingOutputHandler
    if getattr(TreeStateHandler, "_verif_twin", False):
        return
    TreeStateHandler._verif_twin = True
    orig_insert = TreeStateHandler.insert_into_global_state

    def insert_into_global_state(self, out_state):
        if STATE["depth"] == 0:
            h = STATE["last_returned"]
            t = STATE.get("last_time")
            LOG.append(["commit", type(h).__name__ if h is not None else None, t, snap(out_state)])
            STATE["events"] += 1
        STATE["depth"] += 1
        try:
            return orig_insert(self, out_state)
        finally:
            STATE["depth"] -= 1
    TreeStateHandler.insert_into_global_state = insert_into_global_state
    for cls in (HeapScheduler, ListScheduler):
        def wrap(cls=cls):
            og, op = cls.get_succeeding_event, cls.push_event

            def get_succeeding_event(self):
                if STATE["max_events"] is not None and STATE["events"] >= STATE["max_events"]:
                    raise StopTwin()
                h = og(self)
                STATE["last_returned"] = h
                # the time of the returned event, as the scheduler itself keeps it for its monotonicity guard (program
                # state that survives a dump, unlike anything the harness could have recorded before the dump)
                t = getattr(self, "_last_returned_event", (None,))[0]
                STATE["last_time"] = None if t is None else [_hx(t.quotient), _hx(t.remainder)]
                return h

            def push_event(self, time, event_handler):
                STATE["last_pushed"][id(event_handler)] = [_hx(time.quotient), _hx(time.remainder)]
                return op(self, time, event_handler)
            cls.get_succeeding_event, cls.push_event = get_succeeding_event, push_event
        wrap()
    orig_write = InputOutputHandler.write

    def write(self, output_handler, *args):
        if args and isinstance(args[0], list):
            LOG.append(["write", output_handler, snap(args[0])])
        return orig_write(self, output_handler, *args)
    InputOutputHandler.write = write
    orig_dump = DumpingOutputHandler.write

    def dump_write(self, mediator):
        r = orig_dump(self, mediator)
        k = STATE["dumps"]
        STATE["dumps"] += 1
        if STATE["dump_dir"]:
            shutil.copyfile(self._output_filename, os.path.join(STATE["dump_dir"], f"dump_{k}.dat"))
        LOG.append(["dump", k])
        return r
    DumpingOutputHandler.write = dump_write


def main():
    mode, spec = sys.argv[1], json.loads(sys.argv[2])
    from vf import core
    core.assert_repo_import()
    from vf import verif_input_handlers
    verif_input_handlers.register()
    install()
    out = spec["out"]
    STATE["dump_dir"] = spec.get("dump_dir")
    STATE["max_events"] = spec.get("max_events")
    err = None
    try:
        with contextlib.redirect_stdout(io.StringIO()):
            if mode == "run":
                from vf import scenario
                cfg = scenario.build_config(spec["scenario"], spec["workdir"])
                ini = os.path.join(spec["workdir"], "run.ini")
                with open(ini, "w") as f:
                    cfg.write(f)
                random.seed(f"twin:{spec['seed']}")
                import jellyfysh.run as run
                sys.argv = ["jellyfysh", ini]
                run.main()
            else:
                import jellyfysh.resume as resume
                sys.argv = ["jellyfysh-resume", spec["dump"]]
                resume.main()
    except StopTwin:
        pass
    except BaseException as e:  # recorded: the parent decides what it means
        import traceback
        err = f"{type(e).__name__}: {e}\n" + traceback.format_exc()[-1500:]
    with open(out, "w") as f:
        json.dump({"log": LOG, "error": err, "dumps": STATE["dumps"]}, f)


if __name__ == "__main__":
    main()
