"""E6: twin-process differential runner.

Recording is done with CLASS-level wrappers (never instance attributes), so that a mediator pickled by the repository's
dumping output handler contains nothing of the harness and a resumed process can install the very same wrappers before
calling the repository's own resume.main().

  python -m vf.twin run    <json spec>    run jellyfysh.run.main() on a generated .ini, record the commit/sample log
  python -m vf.twin resume <json spec>    run jellyfysh.resume.main() on a dump file, record the log
"""
import contextlib
import io
import json
import os
import random
import shutil
import sys

LOG = []
PUSHES = []      # (number of commits so far, handler, candidate time): only recorded for C20's tie classifier
STATE = {"depth": 0, "last_returned": None, "last_pushed": {}, "dumps": 0, "dump_dir": None, "max_events": None,
         "events": 0}


class StopTwin(Exception):
    pass


def _hx(x):
    return x.hex() if isinstance(x, float) else x


def snap(cnodes, out=None):
    out = [] if out is None else out
    for c in cnodes:
        u = c.value
        out.append([list(u.identifier), [_hx(x) for x in u.position],
                    None if u.velocity is None else [_hx(x) for x in u.velocity],
                    None if u.time_stamp is None else [_hx(u.time_stamp.quotient), _hx(u.time_stamp.remainder)]])
        if c.children:
            snap(c.children, out)
    return out


def install():
    """Class-level recording wrappers (idempotent)."""
    from jellyfysh.state_handler.tree_state_handler import TreeStateHandler
    from jellyfysh.scheduler.heap_scheduler import HeapScheduler
    from jellyfysh.scheduler.list_scheduler import ListScheduler
    from jellyfysh.input_output_handler.input_output_handler import InputOutputHandler
    from jellyfysh.input_output_handler.output_handler.dumping_output_handler import DumpingOutputHandler
    if getattr(TreeStateHandler, "_verif_twin", False):
        return
    TreeStateHandler._verif_twin = True
    orig_insert = TreeStateHandler.insert_into_global_state

    def insert_into_global_state(self, out_state):
        if STATE["depth"] == 0:
            h = STATE["last_returned"]
            t = STATE.get("last_time")
            LOG.append(["commit", type(h).__name__ if h is not None else None, t, snap(out_state)])
            STATE["events"] += 1
        STATE["depth"] += 1
        try:
            return orig_insert(self, out_state)
        finally:
            STATE["depth"] -= 1
    TreeStateHandler.insert_into_global_state = insert_into_global_state
    for cls in (HeapScheduler, ListScheduler):
        def wrap(cls=cls):
            og, op = cls.get_succeeding_event, cls.push_event

            def get_succeeding_event(self):
                if STATE["max_events"] is not None and STATE["events"] >= STATE["max_events"]:
                    raise StopTwin()
                h = og(self)
                STATE["last_returned"] = h
                # the time of the returned event, as the scheduler itself keeps it for its monotonicity guard (program
                # state that survives a dump, unlike anything the harness could have recorded before the dump)
                t = getattr(self, "_last_returned_event", (None,))[0]
                STATE["last_time"] = None if t is None else [_hx(t.quotient), _hx(t.remainder)]
                return h

            def push_event(self, time, event_handler):
                STATE["last_pushed"][id(event_handler)] = [_hx(time.quotient), _hx(time.remainder)]
                if STATE.get("record_pushes"):
                    PUSHES.append([STATE["events"], id(event_handler), [_hx(time.quotient), _hx(time.remainder)]])
                return op(self, time, event_handler)
            cls.get_succeeding_event, cls.push_event = get_succeeding_event, push_event
        wrap()
    orig_write = InputOutputHandler.write

    def write(self, output_handler, *args):
        if args and isinstance(args[0], list):
            LOG.append(["write", output_handler, snap(args[0])])
        return orig_write(self, output_handler, *args)
    InputOutputHandler.write = write
    orig_dump = DumpingOutputHandler.write

    def dump_write(self, mediator):
        r = orig_dump(self, mediator)
        k = STATE["dumps"]
        STATE["dumps"] += 1
        if STATE["dump_dir"]:
            shutil.copyfile(self._output_filename, os.path.join(STATE["dump_dir"], f"dump_{k}.dat"))
        LOG.append(["dump", k])
        return r
    DumpingOutputHandler.write = dump_write


# -- C20: per-handler random streams for the multi-process mediator and its single-process reference ---------------------
def handler_state(seed, index):
    return random.Random(f"c20-handler:{seed}:{index}").getstate()


def install_mp(spec):
    """Before the workers are forked: every event handler gets instance-level wrappers that (in the child) install the
    handler's private generator state on the first call and inject a seeded delay before the result is returned."""
    import multiprocessing
    import time
    from jellyfysh.mediator.multi_process_mediator import multi_process_mediator as mpm
    seed, delays = spec["seed"], spec.get("delays", 0)
    counter = multiprocessing.Value("i", 0)
    STATE["out_states_computed"] = counter
    orig_start = mpm.MultiProcessMediator._start_processes

    def _start_processes(self):
        for index, h in enumerate(self._event_handlers_list):
            def wrap(h=h, index=index):
                st = {"first": True, "calls": 0, "rng": random.Random(f"c20-delay:{seed}:{spec.get('schedule', 0)}:{index}")}
                set_, sos_ = h.send_event_time, h.send_out_state

                def before():
                    if st["first"]:
                        random.setstate(handler_state(seed, index))
                        st["first"] = False

                def after():
                    st["calls"] += 1
                    if delays:
                        r = st["rng"].random()
                        d = 0.0 if r < 0.4 else (0.0005 * st["rng"].random() if r < 0.8 else 0.005 * st["rng"].random() ** 3)
                        if spec.get("invert") and index % 2 == 0:
                            d += 0.002
                        if d:
                            time.sleep(d * delays)

                def send_event_time(*a):
                    before()
                    r = set_(*a)
                    after()
                    return r

                def send_out_state(*a):
                    before()
                    r = sos_(*a)
                    with counter.get_lock():
                        counter.value += 1
                    after()
                    if spec.get("slow_out_states") and index % 3 == 0 and st["calls"] <= 8:
                        time.sleep(0.16)     # a worker may be arbitrarily slow with an out-state computed in advance
                    return r
                h.send_event_time, h.send_out_state = send_event_time, send_out_state
            wrap()
        return orig_start(self)
    mpm.MultiProcessMediator._start_processes = _start_processes
    if spec.get("after_release_ms"):
        # an admissible schedule: the worker is descheduled right after it has released the semaphore (i.e. after its
        # candidate time was sent) for a seeded time
        real_sem = multiprocessing.BoundedSemaphore
        ms = spec["after_release_ms"]

        class SlowSemaphore(object):
            def __init__(self, value=1):
                self._s = real_sem(value=value)
                self._r = random.Random(f"c20-sem:{seed}:{spec.get('schedule', 0)}")

            def acquire(self, *a, **k):
                return self._s.acquire(*a, **k)

            def release(self):
                self._s.release()
                if self._r.random() < 0.5:
                    time.sleep(ms / 1000.0 * self._r.random())
        mpm.multiprocessing.BoundedSemaphore = SlowSemaphore
    # arrival orders seen by the mediator
    orig_wait = mpm.connection.wait
    sig = STATE.setdefault("arrival", {"orders": set(), "multi": 0, "calls": 0})

    def wait(pipes, *a, **k):
        r = orig_wait(pipes, *a, **k)
        idx = tuple(pipes.index(p) for p in r)
        sig["calls"] += 1
        if len(idx) > 1:
            sig["multi"] += 1
        sig.setdefault("seq", []).append(idx)
        return r
    mpm.connection.wait = wait


def install_sp_reference(spec):
    """Single-process reference: the same private stream per handler, swapped into the global generator around each call."""
    from jellyfysh.mediator.single_process_mediator import SingleProcessMediator
    seed = spec["seed"]
    orig_init = SingleProcessMediator.__init__

    import functools

    @functools.wraps(orig_init)      # the factory reads the constructor's signature
    def __init__(self, *a, **k):
        orig_init(self, *a, **k)
        for index, h in enumerate(self._event_handlers_list):
            def wrap(h=h, index=index):
                st = {"state": handler_state(seed, index)}
                set_, sos_ = h.send_event_time, h.send_out_state

                def swapped(f):
                    def g(*a2):
                        saved = random.getstate()
                        random.setstate(st["state"])
                        try:
                            return f(*a2)
                        finally:
                            st["state"] = random.getstate()
                            random.setstate(saved)
                    return g
                h.send_event_time, h.send_out_state = swapped(set_), swapped(sos_)
            wrap()
    SingleProcessMediator.__init__ = __init__


def children_alive():
    me = os.getpid()
    out = []
    for pid in os.listdir("/proc"):
        if pid.isdigit():
            try:
                with open(f"/proc/{pid}/stat") as f:
                    fields = f.read().rsplit(")", 1)[1].split()
                if int(fields[1]) == me and fields[0] != "Z":
                    out.append(int(pid))
            except (OSError, IndexError, ValueError):
                pass
    return out


def main():
    mode, spec = sys.argv[1], json.loads(sys.argv[2])
    if mode in ("mp", "sp_ref"):
        return main_c20(mode, spec)
    from vf import core
    core.assert_repo_import()
    from vf import verif_input_handlers
    verif_input_handlers.register()
    install()
    out = spec["out"]
    STATE["dump_dir"] = spec.get("dump_dir")
    STATE["max_events"] = spec.get("max_events")
    err = None
    try:
        with contextlib.redirect_stdout(io.StringIO()):
            if mode == "run":
                from vf import scenario
                cfg = scenario.build_config(spec["scenario"], spec["workdir"])
                ini = os.path.join(spec["workdir"], "run.ini")
                with open(ini, "w") as f:
                    cfg.write(f)
                random.seed(f"twin:{spec['seed']}")
                import jellyfysh.run as run
                sys.argv = ["jellyfysh", ini]
                run.main()
            else:
                import jellyfysh.resume as resume
                # optional command-line variants of resume.py: -vv (DEBUG logging, update_logging() on the restored
                # objects), --no-output (dummy output handlers); the committed events must not depend on them
                sys.argv = ["jellyfysh-resume", spec["dump"]] + list(spec.get("argv") or [])
                resume.main()
    except StopTwin:
        pass
    except BaseException as e:  # recorded: the parent decides what it means
        import traceback
        err = f"{type(e).__name__}: {e}\n" + traceback.format_exc()[-1500:]
    with open(out, "w") as f:
        json.dump({"log": LOG, "error": err, "dumps": STATE["dumps"]}, f)



def main_c20(mode, spec):
    import hashlib
    import time
    from vf import core
    core.assert_repo_import()
    from vf import verif_input_handlers, scenario
    verif_input_handlers.register()
    install()
    STATE["max_events"] = spec.get("max_events")
    STATE["record_pushes"] = True
    if mode == "mp":
        install_mp(spec)
    else:
        install_sp_reference(spec)
    err, alive_before, alive_after, mediator = None, None, None, None
    try:
        with contextlib.redirect_stdout(io.StringIO()):
            cfg = scenario.build_config(spec["scenario"], spec["workdir"])
            random.seed(f"twin:{spec['seed']}")
            if spec.get("debug_logging"):
                # as `jellyfysh -vv --logfile /dev/null`: the mediator's and the workers' DEBUG branches run
                import logging
                root = logging.getLogger("")
                handler = logging.StreamHandler(open(os.devnull, "w"))
                handler.setLevel(logging.DEBUG)
                root.setLevel(logging.DEBUG)
                root.addHandler(handler)
            mediator, _ = scenario.build_mediator(cfg)
            from jellyfysh.base.exceptions import EndOfRun
            try:
                mediator.run()
            except (EndOfRun, StopTwin):
                pass
            alive_before = len(children_alive())
            mediator.post_run()
            time.sleep(0.3)
            alive_after = children_alive()
    except BaseException as e:
        import traceback
        err = f"{type(e).__name__}: {e}\n" + traceback.format_exc()[-1500:]
        try:
            if mediator is not None:
                mediator.post_run()
        except BaseException:
            pass
    arr = STATE.get("arrival", {})
    seq = arr.get("seq", [])
    res = {"log": LOG, "pushes": PUSHES, "error": err, "children_before_post_run": alive_before,
           "children_alive_after_post_run": alive_after,
           "arrival_signature": hashlib.sha1(repr(seq).encode()).hexdigest() if seq else None,
           "wait_calls": arr.get("calls", 0), "wait_calls_with_several_ready": arr.get("multi", 0),
           "out_states_computed": STATE["out_states_computed"].value if "out_states_computed" in STATE else None}
    with open(spec["out"], "w") as f:
        json.dump(res, f)
    for pid in (alive_after or []):
        try:
            os.kill(pid, 9)
        except OSError:
            pass


if __name__ == "__main__":
    main()
