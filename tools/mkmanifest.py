#!/usr/bin/env python3
"""Regenerate /verif/MANIFEST.json from the table below (kept here so that the manifest stays valid at all times)."""
import json, os, sys
HOME = os.path.dirname(os.path.dirname(os.path.abspath(__file__)))
sys.path.insert(0, HOME)

CHECKS = {
 "C01": dict(engine="E3 probe bus + E5 statistical comparator", technique="offline statistical checker over samples recorded by a harness sampler at the output-handler boundary: batch-means z tests against independently computed Boltzmann references (quadrature, own Ewald energy, factorised internal coordinates) and between algorithmic variants, with replication; deterministic hard-core exclusion monitor",
    level="exploration", ref="DESIGN.md §3 C01",
    text="Real chains of harness-built soft-sphere pairs (3-D heap/list, 2-D cuboid), the single water molecule, the hard-disk dipole, two charges (power-bounded, cell-bounded[, cell-veto]) and the dipole variants (4 in quick, 7 in thorough; water pair and 81 hard-disk dipoles in thorough) are sampled through InputOutputHandler.write; every observable is mapped through its reference CDF and tested in 12 quantile bins + first moment with batch-means errors; variants of one model are compared pairwise. A deviation counts only with |z|>5, effect above 10% of a bin's mass, and confirmation by an independent 4x replication.",
    note="Bounded-confidence statement about the recorded observables, not convergence. Effects smaller than the floor (or in unrecorded observables, e.g. three-body correlations) are out of reach. Quick tier resolves ~5-10% effects; thorough ~2%."),
 "C20": dict(engine="E6 twin-process differential", technique="offline checker over recorded event logs of twin processes (multi-process vs single-process mediator with imposed per-handler random streams), seeded delay injection inside the forked workers for schedule diversity, /proc-based process-leak and zero-CPU bounded-progress monitors",
    level="exploration", ref="DESIGN.md §3 C20",
    text="Generated soft/hard sphere systems (with and without cells), molecules and hard-disk dipoles are run under the real MultiProcessMediator with 2..16 cores and seeded delays (0..15 ms, optionally delaying every other handler) injected in the workers; every run's commit/sample log must equal bit for bit the single-process run in which each handler owns the same private random stream; workers must be gone after post_run(); a run in which no process consumes CPU for 10 s is a deadlock. Evidence counts distinct arrival orders, precomputed and discarded out-states.",
    note="Schedules are sampled, not enumerated. The per-handler streams are installed by the harness (CPython re-seeds random in forked children). Liveness is restated as bounded progress."),
 "C19": dict(engine="E6 twin-process differential", technique="offline checker over recorded event logs of twin processes: every dump point of every scenario is resumed with the repository's own resume.main() in a fresh process and its commit/sample log compared bit for bit (float.hex) with the uninterrupted run; class-level recording wrappers only, so dumps contain nothing of the harness",
    level="fault_enumeration", ref="DESIGN.md §3 C19",
    text="Each dumping event of a run is a crash point and ALL of them (up to 8 per scenario in the quick tier, 40 in the thorough tier) are enumerated: shipped configurations with heap and list scheduler, C-backed potentials, cell systems, liftings, mode switching, exact ties between sampling and dumping times, and generated many-particle cell systems; plus the run with dumps vs the same run without the dumping tagger, plus one cycle from a site-packages layout.",
    note="All processes run with ASLR off (setarch -R) and PYTHONHASHSEED=0. Event time in the log = the scheduler's own last-returned time. Ties with the end of run / end of chain are not generated (their order legitimately depends on which other events exist)."),
 "C04": dict(engine="E4 sweep + E3 probe bus", technique="runtime monitor comparing the two real C potentials at identical arguments with directed maximisation of true/bound (hill climbing to the critical set), passive decision monitor on every thinned event of real runs (recorded uniform draw, warning call, velocities; rates recomputed at event positions), scripted-uniform unit driver",
    level="exploration", ref="DESIGN.md §3 C04",
    text="1e5..1e6 separations (uniform, face/edge/corner/origin-stratified) plus coordinate hill climbing reach the critical set (max ratio 0.999902 at the centre of a transverse edge, required >= 0.9995) for the constructors' default prefactors, the shipped 332/531.2 pair, and pickled / deep-copied clones; in runs of all shipped Coulomb configurations every thinned event is checked: upper limit of the draw = bounding rate, confirmed iff u < real, unconfirmed events change no velocity, bound >= real for the scaled 1/r bound, both rates recomputed by the monitor; the two-leaf-unit handler is driven with u on a grid around the ratio.",
    note="Estimator-based cell bounds and the piecewise-constant heuristic bound are not claimed to be true bounds: their exceedances are counted, not judged. Correctness of each derivative is C03's subject."),
 "C03": dict(engine="E4 contract sweep + E1 native", technique="runtime contract monitor on the real derivative() methods against Richardson finite differences of independent energy functions (own Ewald energy with two splittings), metamorphic relations on the real code, bitwise clone (copy/deepcopy/pickle/dill) comparison, ASan+UBSan build and valgrind driver for the C lattice sum",
    level="exploration", ref="DESIGN.md §3 C03",
    text="Tens of thousands of (potential, separation, direction, charges, speed) cases incl. points 1e-12..1e-3 L from faces/edges/corners, near the origin, on axes/diagonals: inverse power, LJ, displaced even power, periodic 1/r bound, bending (three derivatives, sum zero) and the merged-image Coulomb potential are compared with gradients of independently written energies; the lattice sum must not depend on the Ewald splitting, be periodic across faces, odd, transverse-symmetric, permutation-consistent, linear in charges and speed, and scale with the box; all ways of cloning the C object must agree bit for bit; cut-offs 0..12 are constructed/copied/destroyed under ASan and valgrind.",
    note="Finite-difference tolerance 1e-7/1e-8 of |q|(1/L^2+1/r^2). Periodicity is judged across the faces of the minimum-image cell only (the routine truncates its real-space sum around n=0 by design)."),
 "C02": dict(engine="E4 contract sweep + E1 native", technique="runtime contract monitor on the real displacement() methods with an independent energy-space oracle (own U(r), monotone pieces from geometry, periodic re-imaging), hostile boundary-directed inputs; C routine also under AddressSanitizer+UBSan",
    level="exploration", ref="DESIGN.md §3 C02",
    text="5e5..3e6 generated (potential, direction, speed, charges, separation, budget) tuples - separations on/around the minimum sphere, tangent, head-on, at +-L/2, tiny; budgets at the oracle's branch thresholds +-4ulp, denormal - go through inverse power, Lennard-Jones, displaced even power, the periodic 1/r C routine, hard sphere/dipole (arbitrary velocities) and the cell-bounding potential. Totality and sign are asserted for all cases, E_up(d)=budget / infinity iff never reached / first crossing for well-conditioned ones.",
    note="Well-conditioned = budget >1e-9 (relative) away from every oracle threshold and |s| > 1e-3 of the length scale; tolerance 1e-9 in energy plus the oracle's own resolution next to potential minima. Attractive exactly head-on pairs (path through U=-inf) are totality-only."),
 "C10": dict(engine="E3 probe bus + E4 sweep", technique="runtime monitor at the activator hook (multiset of cell-family targets vs ground-truth partners, cell-veto domain enumerated by driving a copy of the real handler with scripted draws) + contract sweep of the real FactorTypeMaps against an independent parser",
    level="exploration", ref="DESIGN.md §3 C10",
    text="After every activator call of shipped and generated cell scenarios (cell-veto, cell-bounding, nearby-only; occupant limits 1, 2, unbounded; units on cell faces, several per cell) the targets of the nearby, surplus and far families are collected as a multiset and compared with all other relevant units from the true positions; generated and shipped factor files are instantiated for every active point mass and compared with the harness parser.",
    note="The cell-veto domain is read from the handler's stored offsets and mapped through the real translate; sampled targets must lie in it. For hard-core configurations without a far family only nearby+surplus coverage is judged."),
 "C18": dict(engine="E4 contract sweep", technique="runtime contract monitor integrating over scripted random draws: alias table rows enumerated and the uniform integrated by probing+bisection; real cell-veto handler driven with scripted choice/uniform/expovariate",
    level="exploration", ref="DESIGN.md §3 C18",
    text="Thousands of rate vectors (n<=2000, zeros, equal, 1e15 spread) go through the real Walker; exact selection probabilities are reconstructed from the code's own answers and compared with rate/total, zero-rate cells must never be selected (incl. u=0). A real LeafUnitCellVetoEventHandler on real periodic cells with a real estimator is driven: candidate time vs E/(beta*total*|c|*speed), target-offset distribution vs bound/total, confirmation limit vs the bound recomputed by the harness for the target's offset, empty target cell.",
    note="Assumes draws go through random.choice/uniform/expovariate. Composite-object cell-veto variant is exercised in runs (C04/C07-C10), not in the scripted driver."),
 "C07": dict(engine="E3 probe bus", technique="invariant monitor at the commit hook of the real mediator loop (full by-value state snapshots before/after every event) over shipped and generated scenarios",
    level="exploration", ref="DESIGN.md §3 C07",
    text="The real mediator loop of all 19 shipped configurations and of generated systems (soft/LJ/hard spheres, cells, cell-bounding, molecules with mode switching, both schedulers) is run with transparent proxies at its public boundaries; at every commit time order, continuity of every unit (single congruence relation), 'inactive units do not move' (bitwise), single chain with conserved speed, positions in [0,L), identities and charges are decided on value snapshots.",
    note="Held on the event histories actually produced (event-budgeted runs). Event time of a commit = time last pushed by the committing handler. Tolerance 1e-9*L for the congruence only."),
 "C08": dict(engine="E3 probe bus", technique="invariant monitor pairing two hooks: by-value in-state snapshot at send_event_time entry vs global state at the commit of that candidate",
    level="exploration", ref="DESIGN.md §3 C08",
    text="For every committed interaction / cell-veto event of every scenario the units of the in-state from which the candidate was computed are compared with the global state just before the commit: same velocity (exact), same line (1e-9 L), same position for resting units (exact). Evidence lists commits per tagger class.",
    note="Interaction-type = handlers owned by factor-type-map, cell-veto, cell-bounding, excluded-cells, surplus taggers. Histories are those produced by the scenario suite."),
 "C09": dict(engine="E3 probe bus", technique="invariant monitor at the activator hook with from-scratch recomputation (pending events reconstructed from return values vs the tagger's own generator on a fresh active state)",
    level="exploration", ref="DESIGN.md §3 C09",
    text="After every activator call of every scenario the multiset of pending in-state identifier tuples per interaction tagger (counts for the other taggers) is compared with what the tagger yields from scratch; TagActivatorError in any run is a violation.",
    note="Pending set is reconstructed from get_event_handlers_to_run / get_trashable_events return values only. The first call (before the start-of-run commit) and the start-of-run tagger are outside the statement. Generators are checked to be pure by calling them twice."),
 "C11": dict(engine="E3 probe bus", technique="invariant monitor at the activator and commit hooks comparing the cell-occupancy bookkeeping with ground-truth positions",
    level="exploration", ref="DESIGN.md §3 C11",
    text="After every activator call in every cell scenario (shipped cell_bounded/cell_veto/hard-disk cells, generated grids with occupant limits 1,2,unbounded, hard disks crossing cells in all directions) every relevant unit must be recorded exactly once in the occupant/surplus list of its true cell, the active unit separately, limits respected; at commits the active unit must still be in its recorded cell unless the committing handler is the cell-boundary handler, after which it must be in the neighbouring cell.",
    note="Cell of a surplus unit is read from the private surplus dictionary (not exposed publicly). Relevance/limit taken from the .ini."),
 "C12": dict(engine="E3 probe bus", technique="invariant monitor at the commit hook: composite objects recomputed from their point masses (weighted velocity sum, nearest-image barycentre) at t=0 and after every event",
    level="exploration", ref="DESIGN.md §3 C12",
    text="Dipoles (7 variants), water (5), hard-disk dipoles (3) and generated molecules of 2-4 point masses with leaf<->root switching (short switch intervals: hundreds of switches) are run; after every commit every composite's stored velocity and advanced position are compared with its members'.",
    note="Velocity tolerance 1e-12 relative, barycentre tolerance 1e-9 L; molecule extent < L/2."),
 "C13": dict(engine="E4 history/model + E3 probe bus", technique="history + executable dict model on the real TreeStateHandler (extract/mutate/insert/extract-active sequences) and between-commit bitwise state comparison in real runs",
    level="exploration", ref="DESIGN.md §3 C13",
    text="Thousands of 60-operation sequences on random trees are executed on the real state handler; after every operation the global state and every still-extracted branch are compared by value with the model (aliasing of any field at any level shows as a difference). In real runs the global-state snapshot after commit k must equal the one before commit k+1 and committed values must read back.",
    note="Mutation of a branch after insertion is outside the statement. Active rule judged only on consistent states."),
 "C17": dict(engine="E3 probe bus + direct drive", technique="online checker over the write log of real runs (exact-arithmetic sample times, per-unit time-slice check of the object handed to the output handler) and direct drive of the interval handlers to k=10^5..10^6",
    level="exploration", ref="DESIGN.md §3 C17",
    text="Every write of every sampling handler in shipped and generated runs is checked: committed time vs k*interval (Fractions), every moving unit of the handed-over state carries the sample time as stamp and lies on its pre-event trajectory; run ends with the end-of-run handler at the configured time; number of writes = number of sampling times before the end. Bare handlers are driven for up to 10^6 consecutive candidates.",
    note="Tolerance (k+2)*ulp(1+interval)/2. Exact ties between a sampling time and the end time are not generated."),
 "C05": dict(engine="E4 contract sweep", technique="runtime contract monitor on the real lifting classes with a scripted uniform draw integrated by probing+bisection (flow-balance oracle)",
    level="exploration", ref="DESIGN.md §3 C05",
    text="For thousands of generated derivative tables (zeros, near-cancelling, 1e12 spread, shuffled order) and EVERY possible active unit, the real insert/get_active_identifier is evaluated over the whole range of the scripted uniform; the measure of each selection is taken from the code's own answers and the balance equation, the no-non-negative-selection rule (including u=0 and u=1-2^-53), determinism and label independence are checked.",
    note="Assumes the schemes draw through random.uniform. Balance tolerance 1e-9*sum|q|. Tables up to 12 entries."),
 "C06": dict(engine="E1 native + history/model differential", technique="history + executable reference model on the real HeapScheduler/ListScheduler, AddressSanitizer+UBSan builds of heap.c under the real Python class, ASan/valgrind C drivers and libFuzzer with an in-driver shadow model",
    level="exploration", ref="DESIGN.md §3 C06",
    text="Protocol-respecting push/trash/get histories (1..3000 handlers, ties, equal quotients/remainders, 2^52 times, inf pushes, pickle/dill round trips, counters poked to 2^32-k, array parked at every reallocation boundary before the overflow path) are run on heap, list and a dict model and every answer compared; the same under ASan+UBSan; C drivers run 10^5..10^7 operations under ASan and valgrind (and libFuzzer in the thorough tier).",
    note="Counter wrap-around reached by writing _minimal_valid_counter before the handler's first push (2^32 real trashes are out of budget). heap.c is rebuilt from /repo's working tree for every run. ASan red zones miss non-adjacent overflows."),
 "C14": dict(engine="E4 contract sweep", technique="runtime contract monitor on Time arithmetic with an exact-rational (fractions.Fraction) oracle over hostile generated operands",
    level="exploration", ref="DESIGN.md §3 C14",
    text="Every generated (time, displacement) / (time, time) case is executed on the real Time class and judged against exact rational arithmetic; held means no case out of 10^5..10^7 boundary-directed cases (carry region, 2^52 quotients, denormals, ties, infinity) violated the contract.",
    note="Trusted: fractions.Fraction, math.ulp/nextafter. Operands restricted to the range the property names (q<=2^52, dt<=2^40). Not all 2^128 operand pairs."),
 "C15": dict(engine="E4 contract sweep", technique="runtime contract monitor on the real PeriodicBoundaries objects with exact modular arithmetic oracle (Fractions), float-neighbour directed inputs",
    level="exploration", ref="DESIGN.md §3 C15",
    text="Real HypercubicSetting/HypercuboidSetting boxes are built and every PeriodicBoundaries method is fed float neighbours of 0, L, kL, +-L/2 and tiny negatives; results judged by exact x mod L, strict half-open range, bitwise idempotence and bitwise cubic==cuboid.",
    note="Trusted: Fractions. Tolerances: 1 ulp(L) for positions, 4 ulp(max(L,|args|)) for separations (roundings correct code performs)."),
 "C16": dict(engine="E4 contract sweep", technique="runtime contract monitor on real CuboidCells/CuboidPeriodicCells grids with an integer index-arithmetic oracle and float-neighbour positions of every cell face",
    level="exploration", ref="DESIGN.md §3 C16",
    text="Hundreds of real grids (dim 1-3, non-cubic, unequal cell counts, periodic/open) are constructed; every extent pair must abut bit-exactly and end at L, every hostile float position must lie in the extent of the cell it is mapped to, and neighbour/nearby/relative/translate must equal index arithmetic modulo n for all or 3000 sampled pairs.",
    note="Cell faces are only required to be within 8 ulp(L) of i*L/n (the code defines cells by float division; the property demands a gap-free partition, not rational faces). Grids limited to <=2500 cells."),
}
PENDING = {}

def main():
    props = [json.loads(l) for l in open(os.path.join(HOME, "properties.jsonl"))]
    checks = []
    for p in props:
        c = CHECKS.get(p["id"])
        if not c:
            continue
        checks.append({
            "property_id": p["id"],
            "quick_cmd": f"./check {p['id']} --tier quick",
            "thorough_cmd": f"./check {p['id']} --tier thorough",
            "evidence_file": f"/verif/evidence/{p['id']}.json",
            "replay_cmd_template": f"./check {p['id']} --replay {{path}}",
            "engine": c["engine"],
            "level_claimed": {"category": c["level"], "text": c["text"], "design_ref": c["ref"]},
            "level_note": c["note"],
            "technique": c["technique"],
        })
    na = [{"property_id": p["id"], "reason": PENDING.get(p["id"], "check not built yet in this session (runtime-monitoring design exists in DESIGN.md §3; no claim is made until the monitor runs green on the unchanged tree)")}
          for p in props if p["id"] not in CHECKS]
    m = {
        "version": 1,
        "setup_cmd": "./setup.sh",
        "hooks": {"guard": "JELLYFYSH_VERIF", "enable": "none needed: all monitors wrap public methods of the real objects from outside (DESIGN.md §1.2); the guard name is reserved but no hook was added to /repo",
                  "baseline_off_cmd": "cd /repo && /venv/bin/python -m pytest -ra -q -p no:cacheprovider --timeout=900 --continue-on-collection-errors",
                  "source_commits": [], "add_only": True},
        "engines": [
            {"name": "E1 native", "path": "vf/native.py", "serves_properties": ["C02", "C03", "C04", "C06"], "kind_free_text": "rebuilds the three cffi extensions from /repo's working tree (plain or ASan+UBSan) and injects them under the real Python classes"},
            {"name": "E3 probe bus", "path": "vf/probe.py", "serves_properties": ["C01", "C04", "C07", "C08", "C09", "C11", "C12", "C13", "C17", "C19", "C20"], "kind_free_text": "runs real mediator loops with wrappers at public boundaries; online invariant monitors + event logs"},
            {"name": "E4 contract sweeps", "path": "vf/monitors", "serves_properties": ["C02", "C03", "C05", "C10", "C14", "C15", "C16", "C18"], "kind_free_text": "hostile generated inputs through the real functions, judged by independent oracles"},
        ],
        "checks": checks,
        "not_applicable": na,
        "notes": "All checks: cwd=/verif, honour VERIF_SEED, exit 0 held / 1 VIOLATION / 2 INCONCLUSIVE; known_findings.json lists recorded and fixed defects.",
    }
    with open(os.path.join(HOME, "MANIFEST.json"), "w") as f:
        json.dump(m, f, indent=1)
        f.write("\n")
    print("checks:", [c["property_id"] for c in checks], "not claimed:", [n["property_id"] for n in na])

main()
