#!/usr/bin/env python3
"""Print the brief handed to an independent sub-agent that seeds a property-breaking change (nothing from /verif but the property text)."""
import json, sys
pid, wt = sys.argv[1], sys.argv[2]
n = sys.argv[3] if len(sys.argv) > 3 else "2"
for l in open('/verif/properties.jsonl'):
    p = json.loads(l)
    if p['id'] == pid:
        break
print(f"""You are helping to evaluate a verification effort for JeLLyFysh (a Python event-chain Monte Carlo application with a cffi C heap scheduler and two cffi C potentials). You have your OWN scratch git worktree of the repository at {wt} (extensions already built in place; Python interpreter: /venv/bin/python; run everything with cwd={wt} so that `import jellyfysh` resolves to {wt}/jellyfysh -- check `jellyfysh.__file__`). Work ONLY inside {wt} (and /tmp/{pid}_scratch for scratch files). Never touch /repo or /verif, never read /verif. No network.

Here is a semantic property of JeLLyFysh that should hold:

  id: {pid}
  title: {p['title']}
  statement: {p['statement']}
  quantified over: {p['quantifier']['text']}
  anchored in: {', '.join(p['anchors']['files'])}

TASK: produce {n} DIFFERENT, independent, realistic changes ("mutants") to the JeLLyFysh source (under {wt}/jellyfysh, .py or .c) each of which BREAKS this property while (a) still importing/compiling and (b) still passing the existing test suite unedited: `cd {wt} && /venv/bin/python -m pytest -q -p no:cacheprovider -x` (728 tests, ~40 s). If you change a .c file rebuild the extension with the matching build script, e.g. `cd {wt} && /venv/bin/python jellyfysh/scheduler/heap_scheduler/heap_build.py` (likewise .../merged_image_coulomb_potential_build.py, .../inverse_power_coulomb_bounding_potential_build.py).

Requirements for each mutant:
 - It is the kind of bug a maintainer could plausibly introduce (off-by-one, wrong comparison, dropped copy, forgotten field, wrong sign in one branch, stale cache, ...), small (1-10 lines).
 - It must need something SPECIFIC to manifest: a particular interleaving, a crash/fault/dump at a particular point, a multi-step sequence of operations, an unusual input (boundary value, particular branch of a case tree, large size), or two cooperating sites that each look fine alone. NOT something ordinary use exposes at once (e.g. not a crash on every run).
 - Provide a demonstration: a small standalone Python program demo.py (run as `cd {wt} && /venv/bin/python <path>/demo.py`) that exits non-zero / fails an assertion WITH the change and exits 0 WITHOUT it (on the pristine worktree). The demo must exercise real JeLLyFysh code and show a violation of the property as stated (not merely "code differs").
 - Verify yourself: pristine tree -> tests pass & demo passes; mutated tree -> tests pass & demo fails.

DELIVERABLE: for mutant k (k = 1..{n}) write the directory /tmp/{pid}_out/m<k>/ containing: patch.diff (output of `git -C {wt} diff` for that mutant ALONE, relative to the pristine HEAD, applicable with `git apply`), demo.py, and notes.md (what it breaks, what it needs in order to manifest, the commands you ran and their outcomes). After saving each mutant's files, restore the worktree (`git -C {wt} checkout -- .`, rebuild any C extension you changed) before starting the next. Leave the worktree pristine at the end. In your final message list the mutants with one line each. Do not spend time on anything else.""")
