#!/bin/bash
# usage: trymut.sh <patch.diff> <Cxx> [tier]   -- run a check against a scratch worktree of /repo HEAD with the patch applied
set -e
patch="$(realpath "$1")"; prop="$2"; tier="${3:-quick}"
wt="/tmp/trymut_$$"
git -C /repo worktree add --detach "$wt" HEAD -q
trap 'git -C /repo worktree remove --force "$wt" >/dev/null 2>&1 || true' EXIT
git -C "$wt" apply "$patch"
cd /verif
VERIF_REPO="$wt" VERIF_EVIDENCE_DIR="/tmp/trymut_ev_$$" ./check "$prop" --tier "$tier" 2>&1 | grep -v "^    [a-z_A-Z0-9]* = " | tail -8
echo "exit=${PIPESTATUS[0]}"
rm -rf "/tmp/trymut_ev_$$"
