#!/bin/bash
# usage: sedmut.sh <relative file> <sed expression> <Cxx> [tier] -- run a check against a scratch worktree with a sed-made mutation
set -e
f="$1"; expr="$2"; prop="$3"; tier="${4:-quick}"
wt="/tmp/sedmut_$$"
git -C /repo worktree add --detach "$wt" HEAD -q
trap 'git -C /repo worktree remove --force "$wt" >/dev/null 2>&1 || true; rm -rf /tmp/sedmut_ev_$$' EXIT
sed -i "$expr" "$wt/$f"
if git -C "$wt" diff --quiet; then echo "NO CHANGE MADE by sed"; exit 3; fi
git -C "$wt" diff | grep '^[+-]' | grep -v '^+++\|^---' | head -6
cd /verif
VERIF_REPO="$wt" VERIF_EVIDENCE_DIR="/tmp/sedmut_ev_$$" ./check "$prop" --tier "$tier" 2>&1 | grep "verdict\|witness" | head -3 | cut -c1-330
