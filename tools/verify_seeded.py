#!/usr/bin/env python3
"""Confirm every incoming seeded change myself and file it under /verif/seeded/<id>/.

For each seeded_incoming/<Cxx>/<mK>: in a scratch worktree of /repo HEAD (outside /repo and /verif, removed afterwards)
  1. demo on the pristine tree       -> must exit 0
  2. git apply patch (+ rebuild C extensions), demo -> must exit != 0
  3. the repository's test suite with the patch -> must pass
  4. the registered checks (quick tier) against the patched tree (VERIF_REPO) -> which ones raise a VIOLATION
Result: seeded/<Cxx>-<mK>/{patch.diff, demo.py, notes.md, meta.json}.   usage: verify_seeded.py [Cxx/mK ...] [--jobs N]"""
import json
import os
import shutil
import subprocess
import sys
from concurrent.futures import ThreadPoolExecutor

HOME = os.path.dirname(os.path.dirname(os.path.abspath(__file__)))
PY = "/venv/bin/python"
BUILDS = ["jellyfysh/scheduler/heap_scheduler/heap_build.py",
          "jellyfysh/potential/merged_image_coulomb_potential/merged_image_coulomb_potential_build.py",
          "jellyfysh/potential/inverse_power_coulomb_bounding_potential/inverse_power_coulomb_bounding_potential_build.py"]
# which checks to try for a change seeded against property P (its own check first, then the neighbours that share machinery)
ALSO = {"C01": ["C02", "C04", "C05"], "C07": ["C19", "C06", "C16"], "C08": ["C06", "C19", "C20"], "C17": ["C19", "C20", "C07"], "C04": ["C03"], "C14": ["C06", "C19"], "C03": ["C19", "C04"],
        "C09": ["C11", "C10", "C19"], "C10": ["C11"], "C12": ["C13"]}


def sh(cmd, cwd, timeout=1500, env=None):
    try:
        p = subprocess.run(cmd, cwd=cwd, shell=True, stdout=subprocess.PIPE, stderr=subprocess.STDOUT, timeout=timeout,
                           env=dict(os.environ, **(env or {})), start_new_session=True)
    except subprocess.TimeoutExpired:
        return 124, "TIMEOUT"
    return p.returncode, p.stdout.decode(errors="replace")


def build(wt):
    for b in BUILDS:
        rc, out = sh(f"{PY} {b} >/dev/null 2>&1", wt)
        if rc:
            return False
    return True


def one(item):
    prop, m = item.split("/")
    src = os.path.join(HOME, "seeded_incoming", prop, m)
    wt = f"/tmp/vseed_{prop}_{m}"
    try:
        import re
        mm = re.search(r"/tmp/mut_C[0-9]+", open(os.path.join(src, "demo.py")).read())
        if mm:      # the demonstration asserts the location of the worktree it was written in
            wt = mm.group(0)
    except OSError:
        pass
    meta = {"property": prop, "mutant": m, "repo_head": sh("git -C /repo log --format=%h -1", "/")[1].strip()}
    sh(f"git -C /repo worktree remove --force {wt}", "/")
    sh(f"git -C /repo worktree add --detach {wt} HEAD -q", "/")
    try:
        if not build(wt):
            meta["status"] = "build failed"
            return meta
        demo = os.path.join(src, "demo.py")
        rc0, out0 = sh(f"{PY} {demo}", wt, 900)
        meta["demo_pristine_exit"] = rc0
        rc, out = sh(f"git apply --check {src}/patch.diff && git apply {src}/patch.diff", wt)
        if rc:
            meta["status"] = "patch does not apply to the current HEAD: " + out[-300:]
            return meta
        changed = sh("git diff --name-only", wt)[1].split()
        meta["files"] = changed
        if any(f.endswith(".c") or f.endswith(".h") for f in changed) and not build(wt):
            meta["status"] = "build with patch failed"
            return meta
        rc1, out1 = sh(f"{PY} {demo}", wt, 900)
        meta["demo_mutated_exit"] = rc1
        meta["demo_mutated_tail"] = out1[-400:]
        rct, outt = sh(f"{PY} -m pytest -q -p no:cacheprovider -x --timeout=600 2>&1 | tail -2", wt, 1500)
        meta["tests_with_patch"] = outt.strip().splitlines()[-1] if outt.strip() else ""
        tests_ok = " passed" in outt and "failed" not in outt and "error" not in outt.lower()
        meta["tests_pass_with_patch"] = tests_ok
        caught = {}
        for chk in [prop] + ALSO.get(prop, []):
            ev = f"/tmp/vseed_ev_{prop}_{m}_{chk}"
            rcc, outc = sh(f"./check {chk} --tier quick", HOME, 2400, env={"VERIF_REPO": wt, "VERIF_EVIDENCE_DIR": ev})
            keys = [ln.split("[")[1].split("]")[0] for ln in outc.splitlines() if ln.strip().startswith("witness [")]
            caught[chk] = {"exit": rcc, "keys": sorted(set(keys))[:6]}
            shutil.rmtree(ev, ignore_errors=True)
            if rcc == 1 and chk == prop:
                pass
        meta["checks"] = caught
        meta["caught_by"] = [c for c, r in caught.items() if r["exit"] == 1]
        ok = rc0 == 0 and rc1 != 0 and tests_ok
        meta["status"] = "confirmed" if ok else "not confirmed"
        if ok:
            dst = os.path.join(HOME, "seeded", f"{prop}-{m}")
            os.makedirs(dst, exist_ok=True)
            for f in ("patch.diff", "demo.py", "notes.md"):
                if os.path.exists(os.path.join(src, f)):
                    shutil.copyfile(os.path.join(src, f), os.path.join(dst, f))
            meta["needs_to_manifest"] = "see notes.md (written by the sub-agent that seeded the change)"
            meta["what_i_ran"] = ["demo.py on a pristine scratch worktree of /repo HEAD (exit 0)",
                                  "git apply patch.diff (+ rebuild of the cffi extensions), demo.py (exit != 0)",
                                  "/venv/bin/python -m pytest -q -p no:cacheprovider -x in the patched worktree (pass)",
                                  "VERIF_REPO=<worktree> ./check <id> --tier quick for: " + ", ".join(caught)]
            with open(os.path.join(dst, "meta.json"), "w") as f:
                json.dump(meta, f, indent=1)
        return meta
    finally:
        sh(f"git -C /repo worktree remove --force {wt}", "/")
        shutil.rmtree(wt, ignore_errors=True)


def main():
    args = [a for a in sys.argv[1:] if not a.startswith("--")]
    jobs = 3
    for a in sys.argv[1:]:
        if a.startswith("--jobs="):
            jobs = int(a.split("=")[1])
    if not args:
        inc = os.path.join(HOME, "seeded_incoming")
        args = sorted(f"{p}/{m}" for p in os.listdir(inc) for m in os.listdir(os.path.join(inc, p)))
    with ThreadPoolExecutor(jobs) as ex:
        for meta in ex.map(one, args):
            print(json.dumps({k: meta.get(k) for k in ("property", "mutant", "status", "demo_pristine_exit", "demo_mutated_exit",
                                                      "tests_with_patch", "caught_by")}), flush=True)


main()
