#!/bin/bash
# like trymut.sh but rebuilds C extensions
patch="$(realpath "$1")"; prop="$2"; tier="${3:-quick}"
wt="/tmp/trymutc_$$"
/verif/tools/mkwt.sh "$wt" >/dev/null 2>&1
git -C "$wt" apply "$patch"
(cd $wt && for b in jellyfysh/scheduler/heap_scheduler/heap_build.py jellyfysh/potential/merged_image_coulomb_potential/merged_image_coulomb_potential_build.py jellyfysh/potential/inverse_power_coulomb_bounding_potential/inverse_power_coulomb_bounding_potential_build.py; do /venv/bin/python $b >/dev/null 2>&1; done)
cd /verif
VERIF_REPO="$wt" VERIF_EVIDENCE_DIR="/tmp/trymut_ev_$$" ./check "$prop" --tier "$tier" 2>&1 | grep -v "^    [a-z_A-Z0-9]* = " | tail -5
rm -rf "/tmp/trymut_ev_$$"; git -C /repo worktree remove --force "$wt"
