#!/usr/bin/env python3
"""Regression of the whole harness: every filed seeded change is applied to a scratch worktree of /repo HEAD and the check
that is recorded as catching it (meta.json caught_by[0]) is run again (quick tier); it must still exit 1.
usage: recheck_seeded.py [--jobs=N] [ids...]"""
import glob
import json
import os
import subprocess
import sys
from concurrent.futures import ThreadPoolExecutor

HOME = os.path.dirname(os.path.dirname(os.path.abspath(__file__)))
BUILDS = ["jellyfysh/scheduler/heap_scheduler/heap_build.py",
          "jellyfysh/potential/merged_image_coulomb_potential/merged_image_coulomb_potential_build.py",
          "jellyfysh/potential/inverse_power_coulomb_bounding_potential/inverse_power_coulomb_bounding_potential_build.py"]


def sh(cmd, cwd="/", timeout=2400, env=None):
    try:
        p = subprocess.run(cmd, cwd=cwd, shell=True, stdout=subprocess.PIPE, stderr=subprocess.STDOUT, timeout=timeout,
                           env=dict(os.environ, **(env or {})), start_new_session=True)
        return p.returncode, p.stdout.decode(errors="replace")
    except subprocess.TimeoutExpired:
        return 124, "TIMEOUT"


def one(name):
    d = os.path.join(HOME, "seeded", name)
    meta = json.load(open(os.path.join(d, "meta.json")))
    chk = (meta.get("caught_by") or [meta["property"]])[0]
    wt = f"/tmp/rs_{name}"
    sh(f"git -C /repo worktree remove --force {wt}")
    sh(f"git -C /repo worktree add --detach {wt} HEAD -q")
    try:
        rc, out = sh(f"git apply {d}/patch.diff", wt)
        if rc:
            return name, chk, "patch does not apply"
        changed = sh("git diff --name-only", wt)[1]
        if ".c" in changed or ".h" in changed:
            for b in BUILDS:
                sh(f"/venv/bin/python {b} >/dev/null 2>&1", wt)
        ev = f"/tmp/rs_ev_{name}"
        rc, out = sh(f"./check {chk} --tier quick", HOME, env={"VERIF_REPO": wt, "VERIF_EVIDENCE_DIR": ev})
        sh(f"rm -rf {ev}")
        return name, chk, "caught" if rc == 1 else f"NOT CAUGHT (exit {rc})"
    finally:
        sh(f"git -C /repo worktree remove --force {wt}")
        sh(f"rm -rf {wt}")


def main():
    jobs = 4
    names = []
    for a in sys.argv[1:]:
        if a.startswith("--jobs="):
            jobs = int(a.split("=")[1])
        else:
            names.append(a)
    names = names or sorted(os.path.basename(os.path.dirname(f)) for f in glob.glob(os.path.join(HOME, "seeded", "*", "meta.json")))
    with ThreadPoolExecutor(jobs) as ex:
        for name, chk, res in ex.map(one, names):
            print(name, chk, res, flush=True)


main()
