#!/bin/bash
# usage: mkwt.sh <dir>   -- scratch worktree of /repo HEAD with the three cffi extensions built in place
set -e
d="$1"
git -C /repo worktree add --detach "$d" HEAD -q
cd "$d"
for b in jellyfysh/scheduler/heap_scheduler/heap_build.py \
         jellyfysh/potential/merged_image_coulomb_potential/merged_image_coulomb_potential_build.py \
         jellyfysh/potential/inverse_power_coulomb_bounding_potential/inverse_power_coulomb_bounding_potential_build.py; do
  /venv/bin/python $b >/dev/null 2>&1 || { echo "build failed: $b"; exit 1; }
done
echo "worktree ready: $d"
