#!/bin/bash
# Offline setup: prime the native build cache (every check also builds lazily, so failure here is not fatal for them).
cd "$(dirname "$0")"
export PYTHONPATH="${VERIF_REPO:-/repo}:$PWD" PYTHONDONTWRITEBYTECODE=1
mkdir -p _work .build evidence replays
/venv/bin/python -c "import jellyfysh, sys; print('jellyfysh from', jellyfysh.__file__)"
if [ -f vf/native.py ]; then /venv/bin/python -m vf.native prime || echo "native prime failed (checks rebuild lazily)"; fi
exit 0
