/* potentials_driver.c - exercises construct / derivative / copy / destroy of merged_image_coulomb_potential.c so that
 * valgrind memcheck (uninitialised reads of the ragged Fourier array, invalid accesses, leaks) can watch the real code.
 * usage: potentials_driver <seed> <points>      prints "OK points=... potentials=..." */
#include "merged_image_coulomb_potential.h"
#include <stdio.h>
#include <stdlib.h>
#include <math.h>
#include <stdint.h>

static uint64_t rs;
static double rnd01(void) { rs ^= rs << 13; rs ^= rs >> 7; rs ^= rs << 17; return (rs >> 11) * (1.0 / 9007199254740992.0); }

int main(int argc, char **argv) {
    rs = (argc > 1 ? strtoull(argv[1], NULL, 10) : 0) * 2654435761u + 88172645463325252ull;
    long points = argc > 2 ? atol(argv[2]) : 200;
    long npot = 0, npts = 0;
    double acc = 0.0;
    for (int fc = 0; fc <= 12; fc++) {
        for (int pc = 0; pc <= 3; pc++) {
            double L = (fc % 3 == 0) ? 1.0 : (fc % 3 == 1 ? 3.7 : 0.37);
            struct MergedImageCoulombPotential *p = construct_merged_image_coulomb_potential(fc, pc, 3.45, L);
            if (!p) return 4;
            struct MergedImageCoulombPotential *c = copy_merged_image_coulomb_potential(p);
            if (!c) return 4;
            npot += 2;
            long n = points / 52 + 1;
            for (long i = 0; i < n; i++) {
                double sx = (rnd01() - 0.5) * L, sy = (rnd01() - 0.5) * L, sz = (rnd01() - 0.5) * L;
                double a = derivative(p, sx, sy, sz), b = derivative(c, sx, sy, sz);
                if (a != b) { printf("MISMATCH copy fc=%d pc=%d\n", fc, pc); return 3; }
                if (a != a) { printf("NAN fc=%d pc=%d\n", fc, pc); return 3; }   /* branches on the value: memcheck sees uninitialised data */
                acc += a;
                npts++;
            }
            (void) estimated_size(p);
            destroy_merged_image_coulomb_potential(p);
            destroy_merged_image_coulomb_potential(c);
        }
    }
    printf("OK points=%ld potentials=%ld checksum=%g\n", npts, npot, acc);
    return 0;
}
