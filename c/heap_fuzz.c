/* heap_fuzz.c - libFuzzer target: bytes -> push/trash/get operations on heap.c, checked against a shadow model. */
#include "heap.h"
#include <stdint.h>
#include <stdlib.h>
#include <stdio.h>
#include <string.h>

#define NH 24
static uint64_t counter[NH];
static int live[NH];
static double lq[NH], lr[NH];
static int ids[NH];

static int valid_cb(void *s, void *handler, uint c) { (void) s; return counter[*(int *) handler] > (uint64_t) c; }
static int less(double q1, double r1, double q2, double r2) { return q1 < q2 || (q1 == q2 && r1 < r2); }

int LLVMFuzzerTestOneInput(const uint8_t *data, size_t size) {
    struct Heap *heap = construct_heap();
    double nowq = 0.0, nowr = 0.0;
    for (int h = 0; h < NH; h++) { ids[h] = h; live[h] = 0; counter[h] = 0; }
    size_t i = 0;
    if (size > 0 && (data[0] & 1)) { for (int h = 0; h < NH; h += 3) counter[h] = 4294967295ull - (data[0] >> 6); }
    while (i + 1 < size) {
        uint8_t op = data[i++], arg = data[i++];
        int h = arg % NH;
        switch (op % 4) {
        case 0: case 3: {
            if (live[h]) { live[h] = 0; counter[h]++; }
            double q = nowq + (double) ((op >> 2) % 4), r = nowr;
            if ((op >> 4) % 4 == 1) { r = (arg / 256.0); if (q == nowq && r < nowr) q += 1.0; }
            if ((op >> 4) % 4 == 2) { r = nowr; }
            if ((op >> 4) % 4 == 3) { r = nowr + (1.0 - nowr) * (arg / 512.0); }
            if (counter[h] > 4294967295ull) { delete_events(heap, &ids[h]); counter[h] = 0; }
            if (insert(heap, q, r, &ids[h], (uint) counter[h]) == (size_t) -1) abort();
            live[h] = 1; lq[h] = q; lr[h] = r;
            break; }
        case 1:
            if (live[h]) { live[h] = 0; counter[h]++; }
            break;
        case 2: {
            struct HeapEntry top = root(heap, NULL, valid_cb);
            int have = 0; double mq = 0, mr = 0;
            for (int k = 0; k < NH; k++) if (live[k] && (!have || less(lq[k], lr[k], mq, mr))) { have = 1; mq = lq[k]; mr = lr[k]; }
            if (!have) { if (top.event_handler != NULL) abort(); break; }
            if (top.event_handler == NULL) abort();
            int th = *(int *) top.event_handler;
            if (!live[th] || (uint64_t) top.counter != counter[th]) abort();
            if (top.time_quotient != mq || top.time_remainder != mr) abort();
            nowq = mq; nowr = mr;
            if (arg & 1) { live[th] = 0; counter[th]++; }
            break; }
        }
    }
    destroy_heap(heap);
    return 0;
}
