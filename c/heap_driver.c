/* heap_driver.c - random protocol-respecting histories against the repository's heap.c with a shadow model.
 * usage: heap_driver <seed> <nops>
 * exit 0 + "OK ops=... gets=..." : all answers agreed with the shadow model
 * exit 3 : order mismatch (message on stdout); sanitizer / valgrind reports use their own exit codes.
 * The Python side of HeapScheduler is emulated: per-handler valid counter (64 bit here), lazy deletion through the
 * callback, and the OverflowError path: counter > UINT_MAX at insert => delete_events + counter = 0. */
#include "heap.h"
#include <stdio.h>
#include <stdlib.h>
#include <stdint.h>
#include <math.h>

#define MAXH 4096
static uint64_t counter[MAXH];
static int live[MAXH];
static double lq[MAXH], lr[MAXH];
static int handler_ids[MAXH];
static unsigned long long callbacks = 0, lazy_pops = 0;

static uint64_t rs;
static uint64_t rnd(void) { rs ^= rs << 13; rs ^= rs >> 7; rs ^= rs << 17; return rs; }
static double rnd01(void) { return (rnd() >> 11) * (1.0 / 9007199254740992.0); }

static int valid_cb(void *sched, void *handler, uint c) {
    (void) sched;
    int h = *(int *) handler;
    callbacks++;
    int del = counter[h] > (uint64_t) c;
    if (del) lazy_pops++;
    return del;
}

static int less(double q1, double r1, double q2, double r2) { return q1 < q2 || (q1 == q2 && r1 < r2); }

int main(int argc, char **argv) {
    rs = argc > 1 ? strtoull(argv[1], NULL, 10) * 2654435761u + 88172645463325252ull : 88172645463325252ull;
    long nops = argc > 2 ? atol(argv[2]) : 100000;
    unsigned long long gets = 0, pushes = 0, trashes = 0, wraps = 0, empties = 0, maxlen = 0, entries = 0;
    long op = 0;
    while (op < nops) {
        /* one episode = one heap */
        struct Heap *heap = construct_heap();
        int nh = 1 + (int) (rnd() % (rnd() % 5 == 0 ? MAXH : 200));
        double nowq = (rnd() % 4 == 0) ? 4503599627370496.0 - 100000.0 : 0.0, nowr = 0.0;
        for (int h = 0; h < nh; h++) {
            handler_ids[h] = h; live[h] = 0;
            counter[h] = (rnd() % 7 == 0) ? 4294967295ull - (rnd() % 3) : 0;
        }
        long eops = 200 + (long) (rnd() % 60000);
        entries = 0;
        for (long e = 0; e < eops && op < nops; e++, op++) {
            unsigned c = rnd() % 100;
            int h = (int) (rnd() % nh);
            if (c < 45) {
                if (live[h]) continue;
                double q = nowq, r = nowr;
                unsigned s = rnd() % 10;
                if (s == 0) { /* tie */ }
                else if (s < 3) { r = nowr + (1.0 - nowr) * rnd01() * 1e-6; if (r >= 1.0) { r = 0.0; q += 1.0; } }
                else if (s < 5) { q += 1.0 + (double) (rnd() % 3); }
                else if (s < 6) { q += 1.0; r = nowr * rnd01(); }
                else { double dt = exp(rnd01() * 20.0 - 12.0); double t = r + dt; q += floor(t); r = t - floor(t); }
                if (counter[h] > 4294967295ull) { delete_events(heap, &handler_ids[h]); counter[h] = 0; wraps++; }
                size_t sz = insert(heap, q, r, &handler_ids[h], (uint) counter[h]);
                if (sz == (size_t) -1) { printf("alloc failure\n"); return 4; }
                live[h] = 1; lq[h] = q; lr[h] = r; pushes++; entries++;
                if (entries > maxlen) maxlen = entries;
            } else if (c < 80) {
                if (!live[h]) {
                    /* bias: trash the minimum half of the time */
                    continue;
                }
                live[h] = 0; counter[h]++; trashes++;
            } else {
                struct HeapEntry top = root(heap, NULL, valid_cb);
                int have = 0; double mq = 0, mr = 0;
                for (int k = 0; k < nh; k++) if (live[k] && (!have || less(lq[k], lr[k], mq, mr))) { have = 1; mq = lq[k]; mr = lr[k]; }
                gets++;
                if (!have) {
                    if (top.event_handler != NULL) { printf("MISMATCH op=%ld: returned an event from an empty scheduler\n", op); return 3; }
                    empties++;
                    continue;
                }
                if (top.event_handler == NULL) { printf("MISMATCH op=%ld: empty answer, minimal live time (%.17g,%.17g)\n", op, mq, mr); return 3; }
                int th = *(int *) top.event_handler;
                if (!live[th] || (uint64_t) top.counter != counter[th]) { printf("MISMATCH op=%ld: trashed event of handler %d returned\n", op, th); return 3; }
                if (top.time_quotient != mq || top.time_remainder != mr) {
                    printf("MISMATCH op=%ld: returned (%.17g,%.17g), minimal live time (%.17g,%.17g)\n", op, top.time_quotient, top.time_remainder, mq, mr);
                    return 3;
                }
                nowq = mq; nowr = mr;
                if (rnd() % 10 < 7) { live[th] = 0; counter[th]++; trashes++; }
            }
        }
        destroy_heap(heap);
    }
    printf("OK ops=%ld gets=%llu pushes=%llu trashes=%llu wraps=%llu empties=%llu callbacks=%llu lazy_pops=%llu max_entries=%llu\n",
           op, gets, pushes, trashes, wraps, empties, callbacks, lazy_pops, maxlen);
    return 0;
}
